import BGV.Proofs.RefineD
import BGV.Proofs.Keys
import BGV.Model.Weighted
/-!
# BGV.Proofs.Weighted — `DirectedWeightedGraph`: the graph part of every mutator is the
corresponding mutator of `LabeledDirectedGraph<double>`, and `totalWeight` stays the sum of
the stored weights (exact arithmetic).
-/
set_option linter.unusedSectionVars false
namespace BGV

namespace AMap
def sumI (m : AMap Int) : Int := (m.map (·.2)).sum

theorem sumI_erase (m : AMap Int) (k : Edge) (h : (keys m).Nodup) :
    sumI (erase m k) + (get? m k).getD 0 = sumI m := by
  induction m with
  | nil => simp [sumI, erase, get?]
  | cons p m ih =>
    obtain ⟨a, v⟩ := p
    have hn : a ∉ keys m ∧ (keys m).Nodup := List.nodup_cons.1 (by simpa [keys] using h)
    by_cases hak : a = k
    · subst hak
      have herase : erase m a = m := by
        simp only [erase]
        apply List.filter_eq_self.2
        intro q hq
        simp only [bne_iff_ne, ne_eq]
        intro e; apply hn.1
        simp only [keys, List.mem_map]; exact ⟨q, hq, e⟩
      have h1 : erase ((a, v) :: m) a = erase m a := by simp [erase, List.filter_cons]
      have h2 : get? ((a, v) :: m) a = some v := by simp [get?, List.lookup]
      rw [h1, h2, herase]
      simp [sumI]; omega
    · have hne : (a != k) = true := by simpa using hak
      have h1 : erase ((a, v) :: m) k = (a, v) :: erase m k := by simp [erase, List.filter_cons, hne]
      have hka : (k == a) = false := by simp; exact fun e => hak e.symm
      have h2 : get? ((a, v) :: m) k = get? m k := by simp [get?, List.lookup, hka]
      rw [h1, h2]
      have := ih hn.2
      simp only [sumI, List.map_cons, List.sum_cons] at this ⊢
      omega

theorem sumI_insert (m : AMap Int) (k : Edge) (v : Int) (h : (keys m).Nodup) :
    sumI (insert m k v) + (get? m k).getD 0 = sumI m + v := by
  have := sumI_erase m k h
  simp only [insert, sumI, List.map_cons, List.sum_cons] at this ⊢
  omega
end AMap

namespace G
variable {L : Type} [Inhabited L]
theorem removed_count' (g : G L) (h : Inv g) (i j : Nat) :
    (g.nb i).length - ((g.remove i j).nb i).length = if g.hasEdgeRaw i j then 1 else 0 := by
  rw [nb_remove]
  simp only [if_true]
  have := length_filter_ne_eq (g.nb i) j (h.nodup i)
  by_cases hm : j ∈ g.nb i
  · have he : g.hasEdgeRaw i j = true := by simpa [hasEdgeRaw] using hm
    simp only [hm, if_true, he] at this ⊢; omega
  · have he : g.hasEdgeRaw i j = false := by simpa [hasEdgeRaw] using hm
    simp only [hm, if_false, he] at this ⊢
    simp; omega

theorem get?_none_of_absent' (g : G L) (h : Inv g) (hl : g.labelled = true) (i j : Nat) (he : g.hasEdgeRaw i j = false) :
    g.labels.get? (i, j) = none := by
  have := h.lab hl i j
  rw [he] at this
  cases hg : g.labels.get? (i, j) with
  | none => rfl
  | some w => rw [hg] at this; cases this

theorem dAddEdge_forced_absent' (g : G L) (i j : Nat) (l : L) (he : g.hasEdgeRaw i j = false) :
    g.dAddEdge i j l true = g.dAddEdge i j l false := by
  simp [dAddEdge, he]
end G

/-- the calls of property C05, on a weighted graph -/
inductive WOp where
  | addEdge (i j : Nat) (w : Int)
  | setEdgeWeight (i j : Nat) (w : Int)
  | removeEdge (i j : Nat)
  | removeSelfLoops
  | removeVertexFromEdgeList (v : Nat)
  | clearEdges
  | resize (n : Nat)

namespace WG
open G

/-- the implementation's transition (model of `DirectedWeightedGraph`, force off) -/
def dStep (m : WG) : WOp → WG
  | .addEdge i j w => (m.dAddEdge i j w false).1
  | .setEdgeWeight i j w => (m.dSetEdgeWeight i j w).1
  | .removeEdge i j => (m.dRemoveEdge i j).1
  | .removeSelfLoops => m.dRemoveSelfLoops
  | .removeVertexFromEdgeList v => (m.dRemoveVertex v).1
  | .clearEdges => m.clearEdges
  | .resize n => (m.resize n).1

def dRun (m : WG) (ops : List WOp) : WG := ops.foldl dStep m

/-- the call of the labelled base class that a weighted call performs on the graph part -/
def toS (m : WG) : WOp → SOp Int
  | .addEdge i j w => .addEdge i j w
  | .setEdgeWeight i j w => if m.g.hasEdgeRaw i j then .setEdgeLabel i j w else .addEdge i j w
  | .removeEdge i j => .removeEdge i j
  | .removeSelfLoops => .removeSelfLoops
  | .removeVertexFromEdgeList v => .removeVertexFromEdgeList v
  | .clearEdges => .clearEdges
  | .resize n => .resize n

structure WInv (m : WG) : Prop where
  base : Inv m.g
  lbl : m.g.labelled = true
  keys : KeysNodup m.g
  tot : m.total = AMap.sumI m.g.labels

theorem winv_new (n : Nat) : WInv (WG.new n) :=
  ⟨inv_new true n, rfl, keysNodup_new true n, by simp [WG.new, G.new, AMap.sumI]⟩

theorem cur_eq (g : G Int) (e : Edge) : cur g e = (g.labels.get? e).getD 0 := rfl

/-! ### the graph part -/

theorem dAddEdge_g (m : WG) (i j : Nat) (w : Int) : (m.dAddEdge i j w false).1.g = (m.g.dAddEdge i j w false).1 := by
  unfold WG.dAddEdge
  split
  · rename_i hr; simp [G.dAddEdge, hr]
  · rename_i hr
    by_cases he : m.g.hasEdgeRaw i j = true
    · simp [he, G.dAddEdge, hr]
    · have he : m.g.hasEdgeRaw i j = false := by simpa using he
      simp only [he, Bool.not_false, Bool.or_true, if_true]
      rw [dAddEdge_forced_absent' m.g i j w he]

theorem dRemoveEdgeCore_g (m : WG) (i j : Nat) : (m.dRemoveEdgeCore i j).g = m.g.dRemoveEdgeCore i j := rfl

theorem foldl_removeCore_g (f : Nat → Nat × Nat) (is : List Nat) (m : WG) :
    (is.foldl (fun m i => m.dRemoveEdgeCore (f i).1 (f i).2) m).g
      = is.foldl (fun g i => g.dRemoveEdgeCore (f i).1 (f i).2) m.g := by
  induction is generalizing m with
  | nil => rfl
  | cons i is ih => simp only [List.foldl_cons]; rw [ih]; rfl

theorem dropOut_fst (v : Nat) (js : List Nat) (lab : AMap Int) (t : Int) :
    (dropOut v js (lab, t)).1 = js.foldl (fun m j => AMap.erase m (v, j)) lab := by
  induction js generalizing lab t with
  | nil => rfl
  | cons j js ih => simp only [dropOut, List.foldl_cons]; exact ih _ _

theorem dropOut_snd (v : Nat) (js : List Nat) (lab : AMap Int) (t : Int)
    (hk : (AMap.keys lab).Nodup) (ht : t = AMap.sumI lab) :
    (dropOut v js (lab, t)).2 = AMap.sumI (dropOut v js (lab, t)).1 := by
  induction js generalizing lab t with
  | nil => exact ht
  | cons j js ih =>
    simp only [dropOut]
    apply ih _ _ (AMap.nodup_keys_erase lab _ hk)
    have h1 := AMap.sumI_erase lab (v, j) hk
    omega

/-- state after the first loop of `removeVertexFromEdgeList(v)` -/
def dropVertexOut (m : WG) (v : Nat) : WG :=
  ⟨m.g.dropVertexOut v, (dropOut v (m.g.nb v) (m.g.labels, m.total)).2⟩

theorem dRemoveVertex_eq (m : WG) (hl : m.g.labelled = true) (v : Nat) (hv : v < m.g.size) :
    (m.dRemoveVertex v).1 = (List.range m.g.size).foldl
      (fun m i => m.dRemoveEdgeCore ((fun i => (i, v)) i).1 ((fun i => (i, v)) i).2) (m.dropVertexOut v) := by
  have hr : m.g.inR v = true := by simp [inR, hv]
  simp only [dRemoveVertex, hr, Bool.not_true, Bool.false_eq_true, if_false]
  congr 1
  simp only [dropVertexOut, G.dropVertexOut, hl]
  rw [← dropOut_fst v (m.g.nb v) m.g.labels m.total]

theorem dRemoveVertex_oor (m : WG) (v : Nat) (hv : ¬ v < m.g.size) : m.dRemoveVertex v = (m, .threw .oor) := by
  simp [dRemoveVertex, inR, hv]

/-- **graph part**: every weighted mutator acts on the inherited labelled graph exactly as the
base-class call `toS` names -/
theorem dStep_g (m : WG) (hl : m.g.labelled = true) (op : WOp) : (m.dStep op).g = (m.g.dStep (m.toS op)).1 := by
  cases op with
  | addEdge i j w => exact dAddEdge_g m i j w
  | setEdgeWeight i j w =>
    simp only [dStep, toS, dSetEdgeWeight]
    by_cases hr : (m.g.inR i && m.g.inR j) = true
    · by_cases he : m.g.hasEdgeRaw i j = true
      · simp only [hr, he, Bool.not_true, Bool.false_eq_true, if_false, if_true, G.dStep, G.dSetEdgeLabel,
          Bool.and_false]
        simp [setLab, hl, withLabels]
      · have he' : m.g.hasEdgeRaw i j = false := by simpa using he
        simp only [hr, he', Bool.not_true, Bool.false_eq_true, if_false, G.dStep]
        exact dAddEdge_g m i j w
    · have hr' : (m.g.inR i && m.g.inR j) = false := by simpa using hr
      simp only [hr', Bool.not_false, if_true]
      split
      · simp [G.dStep, G.dSetEdgeLabel, hr']
      · simp [G.dStep, G.dAddEdge, hr']
  | removeEdge i j =>
    simp only [dStep, toS, G.dStep, dRemoveEdge, G.dRemoveEdge]
    split <;> rfl
  | removeSelfLoops =>
    show ((List.range m.g.size).foldl (fun (m : WG) i => m.dRemoveEdgeCore ((fun i => (i, i)) i).1 ((fun i => (i, i)) i).2) m).g = _
    rw [foldl_removeCore_g]; rfl
  | removeVertexFromEdgeList v =>
    simp only [dStep, toS, G.dStep]
    by_cases hv : v < m.g.size
    · rw [dRemoveVertex_eq m hl v hv, foldl_removeCore_g, G.dRemoveVertex_eq m.g v hv]; rfl
    · rw [dRemoveVertex_oor m v hv, G.dRemoveVertex_oor m.g v hv]
  | clearEdges => rfl
  | resize n =>
    simp only [dStep, toS, G.dStep, WG.resize]

/-! ### the running total -/

theorem winv_of_g (m m' : WG) (h : WInv m) (op : SOp Int) (hg : m'.g = (m.g.dStep op).1)
    (ht : m'.total = AMap.sumI m'.g.labels) : WInv m' :=
  ⟨by rw [hg]; exact inv_dStep m.g h.base op, by rw [hg, dStep_labelled]; exact h.lbl,
   by rw [hg]; exact keysNodup_dStep m.g op h.keys, ht⟩

theorem tot_dAddEdge (m : WG) (h : WInv m) (i j : Nat) (w : Int) :
    (m.dAddEdge i j w false).1.total = AMap.sumI (m.dAddEdge i j w false).1.g.labels := by
  unfold WG.dAddEdge
  split
  · exact h.tot
  · rename_i hr
    have hi : i < m.g.size ∧ j < m.g.size := by simpa [inR] using hr
    by_cases he : m.g.hasEdgeRaw i j = true
    · simp only [he, Bool.false_or, Bool.not_true, Bool.false_eq_true, if_false]; exact h.tot
    · have he : m.g.hasEdgeRaw i j = false := by simpa using he
      simp only [he, Bool.not_false, Bool.or_true, if_true]
      rw [dAddEdge_forced_absent' m.g i j w he]
      have hlabels : (m.g.dAddEdge i j w false).1.labels = m.g.labels.insert (i, j) w := by
        rw [dAddEdge_absent m.g i j w hi.1 hi.2 he]
        rw [setLab_labels_true _ _ _ (by simpa [push] using h.lbl)]; rfl
      rw [hlabels]
      have := AMap.sumI_insert m.g.labels (i, j) w h.keys
      rw [get?_none_of_absent' m.g h.base h.lbl i j he] at this
      simp only [Option.getD_none] at this
      rw [h.tot]; omega

theorem tot_dRemoveEdgeCore (m : WG) (h : WInv m) (i j : Nat) :
    (m.dRemoveEdgeCore i j).total = AMap.sumI (m.dRemoveEdgeCore i j).g.labels := by
  have hd : (default : Int) = 0 := rfl
  simp only [dRemoveEdgeCore, removed_count' m.g h.base i j, labD, h.lbl, if_true, hd, withLabels_labels]
  have := AMap.sumI_erase m.g.labels (i, j) h.keys
  by_cases he : m.g.hasEdgeRaw i j = true
  · simp only [he, if_true]; rw [h.tot]; omega
  · have he : m.g.hasEdgeRaw i j = false := by simpa using he
    rw [get?_none_of_absent' m.g h.base h.lbl i j he] at this ⊢
    simp only [he, Bool.false_eq_true, if_false]
    simp only [Option.getD_none] at this ⊢
    rw [h.tot]; omega

theorem winv_dRemoveEdgeCore (m : WG) (h : WInv m) (i j : Nat) : WInv (m.dRemoveEdgeCore i j) :=
  ⟨inv_dRemoveEdgeCore m.g h.base i j, by rw [dRemoveEdgeCore_g]; simp [h.lbl],
   keysNodup_dRemoveEdgeCore m.g i j h.keys, tot_dRemoveEdgeCore m h i j⟩

theorem winv_foldl_removeCore (f : Nat → Nat × Nat) (is : List Nat) (m : WG) (h : WInv m) :
    WInv (is.foldl (fun m i => m.dRemoveEdgeCore (f i).1 (f i).2) m) := by
  induction is generalizing m with
  | nil => exact h
  | cons i is ih => exact ih _ (winv_dRemoveEdgeCore m h _ _)

theorem winv_dropVertexOut (m : WG) (h : WInv m) (v : Nat) : WInv (m.dropVertexOut v) := by
  refine ⟨inv_dropVertexOut m.g h.base v, h.lbl, keysNodup_foldl_erase _ _ _ h.keys, ?_⟩
  show (dropOut v (m.g.nb v) (m.g.labels, m.total)).2 = _
  rw [dropOut_snd v _ _ _ h.keys h.tot, dropOut_fst]; rfl

/-- every call keeps the invariant -/
theorem winv_dStep (m : WG) (h : WInv m) (op : WOp) : WInv (m.dStep op) := by
  cases op with
  | addEdge i j w => exact winv_of_g m _ h _ (dStep_g m h.lbl (.addEdge i j w)) (tot_dAddEdge m h i j w)
  | setEdgeWeight i j w =>
    refine winv_of_g m _ h _ (dStep_g m h.lbl (.setEdgeWeight i j w)) ?_
    simp only [dStep, dSetEdgeWeight]
    split
    · exact h.tot
    · split
      · simp only [withLabels_labels]
        have := AMap.sumI_insert m.g.labels (i, j) w h.keys
        rw [h.tot, cur_eq]; omega
      · exact tot_dAddEdge m h i j w
  | removeEdge i j =>
    simp only [dStep, dRemoveEdge]
    split
    · exact h
    · exact winv_dRemoveEdgeCore m h i j
  | removeSelfLoops => exact winv_foldl_removeCore (fun i => (i, i)) _ m h
  | removeVertexFromEdgeList v =>
    simp only [dStep]
    by_cases hv : v < m.g.size
    · rw [dRemoveVertex_eq m h.lbl v hv]; exact winv_foldl_removeCore _ _ _ (winv_dropVertexOut m h v)
    · rw [dRemoveVertex_oor m v hv]; exact h
  | clearEdges =>
    show WInv m.clearEdges
    exact ⟨inv_clearEdges m.g h.base, h.lbl, by simp [KeysNodup, WG.clearEdges, G.clearEdges, AMap.keys],
      by simp [WG.clearEdges, G.clearEdges, AMap.sumI]⟩
  | resize n =>
    refine winv_of_g m _ h (.resize n) (dStep_g m h.lbl (.resize n)) ?_
    simp only [dStep, WG.resize, G.resize]
    split <;> exact h.tot

theorem winv_dRun (m : WG) (h : WInv m) (ops : List WOp) : WInv (m.dRun ops) := by
  induction ops generalizing m with
  | nil => exact h
  | cons op ops ih => exact ih _ (winv_dStep m h op)

end WG
end BGV
