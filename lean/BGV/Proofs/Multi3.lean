import BGV.Proofs.Multi2
/-!
# BGV.Proofs.Multi3 — bulk removals of `DirectedMultigraph` (removeSelfLoops,
removeVertexFromEdgeList, clearEdges) and the operation history `MOp`.
-/
set_option linter.unusedSectionVars false
namespace BGV
namespace MG
open G

/-! ## folds of `removeAllEdges` -/

theorem foldl_removeAll_g (f : Nat → Nat × Nat) (is : List Nat) (m : MG) :
    (is.foldl (fun m i => m.dRemoveAllCore (f i).1 (f i).2) m).g
      = is.foldl (fun g i => g.dRemoveEdgeCore (f i).1 (f i).2) m.g := by
  induction is generalizing m with
  | nil => rfl
  | cons i is ih => simp only [List.foldl_cons]; rw [ih]; rfl

theorem minv_foldl_removeAll (f : Nat → Nat × Nat) (is : List Nat) (m : MG) (h : MInv m) :
    MInv (is.foldl (fun m i => m.dRemoveAllCore (f i).1 (f i).2) m) := by
  induction is generalizing m with
  | nil => exact h
  | cons i is ih => exact ih _ (minv_dRemoveAllCore m h _ _)

theorem mult_foldl_removeAll (f : Nat → Nat × Nat) (is : List Nat) (m : MG) (a b : Nat) :
    (is.foldl (fun m i => m.dRemoveAllCore (f i).1 (f i).2) m).mult a b
      = if is.any (fun i => f i == (a, b)) then 0 else m.mult a b := by
  simp only [mult, cur_eq, foldl_removeAll_g, foldl_removeCore_labels]
  split <;> rfl

/-! ## removeSelfLoops -/

theorem dRemoveSelfLoops_eq (m : MG) :
    m.dRemoveSelfLoops = (List.range m.g.size).foldl
      (fun m i => m.dRemoveAllCore ((fun i => (i, i)) i).1 ((fun i => (i, i)) i).2) m := rfl

theorem minv_dRemoveSelfLoops (m : MG) (h : MInv m) : MInv m.dRemoveSelfLoops := by
  rw [dRemoveSelfLoops_eq]; exact minv_foldl_removeAll _ _ m h

theorem dRemoveSelfLoops_g (m : MG) : m.dRemoveSelfLoops.g = m.g.dRemoveSelfLoops := by
  rw [dRemoveSelfLoops_eq, foldl_removeAll_g]; rfl

/-- `removeSelfLoops` zeroes exactly the diagonal -/
theorem mult_dRemoveSelfLoops (m : MG) (h : MInv m) (a b : Nat) :
    m.dRemoveSelfLoops.mult a b = if a = b then 0 else m.mult a b := by
  rw [dRemoveSelfLoops_eq, mult_foldl_removeAll]
  by_cases ha : a < m.g.size
  · rw [any_diag _ a b ha]
    by_cases hab : a = b <;> simp [hab]
  · have hne : m.g.hasEdgeRaw a b = false := by
      cases he : m.g.hasEdgeRaw a b with
      | false => rfl
      | true => exact absurd (h.base.hasEdgeRaw_lt he).1 ha
    have hz := (mult_eq_zero_iff m h a b).2 hne
    rw [hz]; simp

/-! ## removeVertexFromEdgeList -/

theorem dropOut_spec (g : G Nat) (hl : g.labelled = true) (v total : Nat) (js : List Nat) (lab : AMap Nat) (t : Nat)
    (hk : (AMap.keys lab).Nodup) (ht : t = AMap.sumVals lab) :
    (dropOut g v total js (lab, t)).1 = js.foldl (fun m j => AMap.erase m (v, j)) lab ∧
    (dropOut g v total js (lab, t)).2 = AMap.sumVals (dropOut g v total js (lab, t)).1 := by
  induction js generalizing lab t with
  | nil => exact ⟨rfl, ht⟩
  | cons j js ih =>
    simp only [dropOut, hl, if_true, List.foldl_cons]
    apply ih _ _ (AMap.nodup_keys_erase lab _ hk)
    have h1 := AMap.sumVals_erase lab (v, j) hk
    have h2 := AMap.get?_le_sumVals lab (v, j)
    rw [subW_of_le (by omega)]; omega

/-- state after the first loop of `removeVertexFromEdgeList(v)` -/
def dropVertexOut (m : MG) (v : Nat) : MG :=
  ⟨m.g.dropVertexOut v, (dropOut m.g v m.total (m.g.nb v) (m.g.labels, m.total)).2⟩

theorem minv_dropVertexOut (m : MG) (h : MInv m) (v : Nat) : MInv (m.dropVertexOut v) := by
  obtain ⟨h1, h2⟩ := dropOut_spec m.g h.lbl v m.total (m.g.nb v) m.g.labels m.total h.keys h.tot
  refine ⟨inv_dropVertexOut m.g h.base v, h.lbl, keysNodup_foldl_erase _ _ _ h.keys, ?_, ?_⟩
  · intro e w hw
    have : (m.dropVertexOut v).g.labels = (m.g.nb v).foldl (fun m j => AMap.erase m (v, j)) m.g.labels := rfl
    rw [this, AMap.get?_foldl_erase] at hw
    split at hw
    · cases hw
    · exact h.pos e w hw
  · show (dropOut m.g v m.total (m.g.nb v) (m.g.labels, m.total)).2 = _
    rw [h2, h1]; rfl

theorem dRemoveVertex_eq (m : MG) (h : MInv m) (v : Nat) (hv : v < m.g.size) :
    (m.dRemoveVertex v).1 = (List.range m.g.size).foldl
      (fun m i => m.dRemoveAllCore ((fun i => (i, v)) i).1 ((fun i => (i, v)) i).2) (m.dropVertexOut v) := by
  obtain ⟨h1, _⟩ := dropOut_spec m.g h.lbl v m.total (m.g.nb v) m.g.labels m.total h.keys h.tot
  have hr : m.g.inR v = true := by simp [inR, hv]
  simp only [dRemoveVertex, hr, Bool.not_true, Bool.false_eq_true, if_false]
  congr 1
  simp only [dropVertexOut, G.dropVertexOut, h.lbl]
  rw [← h1]

theorem dRemoveVertex_oor (m : MG) (v : Nat) (hv : ¬ v < m.g.size) : m.dRemoveVertex v = (m, .threw .oor) := by
  simp [dRemoveVertex, inR, hv]

theorem minv_dRemoveVertex (m : MG) (h : MInv m) (v : Nat) : MInv (m.dRemoveVertex v).1 := by
  by_cases hv : v < m.g.size
  · rw [dRemoveVertex_eq m h v hv]; exact minv_foldl_removeAll _ _ _ (minv_dropVertexOut m h v)
  · rw [dRemoveVertex_oor m v hv]; exact h

theorem mult_dropVertexOut (m : MG) (v a b : Nat) (h : MInv m) :
    (m.dropVertexOut v).mult a b = if a = v then 0 else m.mult a b := by
  have : (m.dropVertexOut v).g.labels = (m.g.nb v).foldl (fun m j => AMap.erase m (v, j)) m.g.labels := rfl
  simp only [mult, cur_eq, this, AMap.get?_foldl_erase]
  by_cases hav : a = v
  · subst hav
    by_cases hb : b ∈ m.g.nb a
    · simp [hb]
    · have hne : m.g.hasEdgeRaw a b = false := by simpa [hasEdgeRaw] using hb
      have := (mult_eq_zero_iff m h a b).2 hne
      simp only [mult, cur_eq] at this
      simp [hb, this]
  · simp [hav]

/-- `removeVertexFromEdgeList(v)` zeroes exactly row and column `v` -/
theorem mult_dRemoveVertex (m : MG) (h : MInv m) (v : Nat) (hv : v < m.g.size) (a b : Nat) :
    (m.dRemoveVertex v).1.mult a b = if a = v ∨ b = v then 0 else m.mult a b := by
  rw [dRemoveVertex_eq m h v hv, mult_foldl_removeAll, mult_dropVertexOut m v a b h]
  by_cases ha : a < m.g.size
  · rw [any_col _ v a b ha]
    by_cases h1 : a = v <;> by_cases h2 : b = v <;> simp [h1, h2]
  · have hne : m.g.hasEdgeRaw a b = false := by
      cases he : m.g.hasEdgeRaw a b with
      | false => rfl
      | true => exact absurd (h.base.hasEdgeRaw_lt he).1 ha
    have hz := (mult_eq_zero_iff m h a b).2 hne
    rw [hz]; simp

theorem dRemoveVertex_size (m : MG) (v : Nat) : (m.dRemoveVertex v).1.g.size = m.g.size := by
  unfold dRemoveVertex
  split
  · rfl
  · show ((List.range m.g.size).foldl (fun (m : MG) i => m.dRemoveAllCore ((fun i => (i, v)) i).1 ((fun i => (i, v)) i).2) _).g.size = _
    rw [foldl_removeAll_g, foldl_removeCore_size]

/-! ## clearEdges -/

theorem minv_clearEdges (m : MG) (h : MInv m) : MInv m.clearEdges := by
  refine ⟨inv_clearEdges m.g h.base, h.lbl, ?_, ?_, ?_⟩
  · simp [KeysNodup, clearEdges, G.clearEdges, AMap.keys]
  · intro e w hw; simp [clearEdges, G.clearEdges, AMap.get?] at hw
  · simp [clearEdges, G.clearEdges, AMap.sumVals]

theorem mult_clearEdges (m : MG) (a b : Nat) : m.clearEdges.mult a b = 0 := by
  simp [mult, cur_eq, clearEdges, G.clearEdges, AMap.get?]

end MG
end BGV
