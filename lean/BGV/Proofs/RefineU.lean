import BGV.Proofs.URemove2
import BGV.Proofs.RefineD
/-!
# BGV.Proofs.RefineU — the undirected model refines the abstract (symmetric) graph, one call at a time.
-/
set_option linter.unusedSectionVars false
namespace BGV

namespace AG
variable {L : Type} [Inhabited L]

/-- the unordered pair {x,y} is the pair {i,j} -/
def samePair (x y i j : Nat) : Prop := (x = i ∧ y = j) ∨ (x = j ∧ y = i)
instance (x y i j : Nat) : Decidable (samePair x y i j) := by unfold samePair; exact inferInstance

def uAdd (a : AG L) (i j : Nat) (l : L) : AG L :=
  ⟨a.n, fun x y => if samePair x y i j ∧ (a.lab i j).isSome = false then some l else a.lab x y⟩
def uRemove (a : AG L) (i j : Nat) : AG L :=
  ⟨a.n, fun x y => if samePair x y i j then none else a.lab x y⟩

/-- what an undirected call denotes (`addReciprocalEdge` does not exist in the undirected classes
and denotes nothing) -/
def uStep (labelled : Bool) (a : AG L) : SOp L → AG L
  | .addEdge i j l => a.uAdd i j (if labelled then l else default)
  | .addReciprocalEdge _ _ _ => a
  | .removeEdge i j => a.uRemove i j
  | .removeSelfLoops => ⟨a.n, fun x y => if x = y then none else a.lab x y⟩
  | .removeVertexFromEdgeList v => ⟨a.n, fun x y => if x = v ∨ y = v then none else a.lab x y⟩
  | .clearEdges => ⟨a.n, fun _ _ => none⟩
  | .resize m => ⟨m, a.lab⟩
  | .setEdgeLabel i j l =>
      ⟨a.n, fun x y => if samePair x y i j ∧ (a.lab i j).isSome = true then some (if labelled then l else default) else a.lab x y⟩

def uDenote (labelled : Bool) (a : AG L) (ops : List (SOp L)) : AG L := ops.foldl (uStep labelled) a

theorem uStep_n (lb : Bool) (a : AG L) (op : SOp L) : (uStep lb a op).n = op.newSize a.n := by
  cases op <;> rfl
end AG

namespace G
variable {L : Type} [Inhabited L]

def absU (g : G L) : AG L :=
  ⟨g.size, fun i j => if g.hasEdgeRaw i j then some (g.labD (ordered i j)) else none⟩

def uStepM (g : G L) : SOp L → G L × Res Unit
  | .addEdge i j l => g.uAddEdge i j l false
  | .addReciprocalEdge _ _ _ => (g, .ok ())
  | .removeEdge i j => g.uRemoveEdge i j
  | .removeSelfLoops => (g.uRemoveSelfLoops, .ok ())
  | .removeVertexFromEdgeList v => g.uRemoveVertex v
  | .clearEdges => (g.clearEdges, .ok ())
  | .resize m => g.resize m
  | .setEdgeLabel i j l => g.uSetEdgeLabel i j l false

def uRun (g : G L) (ops : List (SOp L)) : G L := ops.foldl (fun g op => (g.uStepM op).1) g

theorem ordered_eq_iff (x y i j : Nat) : ordered x y = ordered i j ↔ AG.samePair x y i j := by
  unfold ordered AG.samePair
  by_cases h1 : x < y <;> by_cases h2 : i < j <;> simp only [h1, h2, if_true, if_false, Prod.mk.injEq]
  · constructor
    · intro h; exact Or.inl h
    · rintro (h | ⟨rfl, rfl⟩); exact h; omega
  · constructor
    · intro h; exact Or.inr h
    · rintro (⟨rfl, rfl⟩ | h); omega; exact h
  · constructor
    · rintro ⟨rfl, rfl⟩; exact Or.inr ⟨rfl, rfl⟩
    · rintro (⟨rfl, rfl⟩ | ⟨rfl, rfl⟩); omega; exact ⟨rfl, rfl⟩
  · constructor
    · rintro ⟨rfl, rfl⟩; exact Or.inl ⟨rfl, rfl⟩
    · rintro (⟨rfl, rfl⟩ | ⟨rfl, rfl⟩)
      · exact ⟨rfl, rfl⟩
      · have : x = y := by omega
        subst this; exact ⟨rfl, rfl⟩

theorem hasEdgeRaw_iff_mem (g : G L) (a b : Nat) : g.hasEdgeRaw a b = true ↔ b ∈ g.nb a := (mem_nb_iff g a b).symm

theorem hasEdgeRaw_congr {g h : G L} {a b : Nat} (hm : b ∈ g.nb a ↔ b ∈ h.nb a) : g.hasEdgeRaw a b = h.hasEdgeRaw a b := by
  rw [Bool.eq_iff_iff, hasEdgeRaw_iff_mem, hasEdgeRaw_iff_mem]; exact hm

/-! ### addEdge -/
theorem absU_uAddEdge (g : G L) (h : UInv g) (i j : Nat) (l : L) (hi : i < g.size) (hj : j < g.size) :
    absU (g.uAddEdge i j l false).1 = (absU g).uAdd i j (if g.labelled then l else default) := by
  have hil : i < g.adj.length := by rw [h.base.len]; exact hi
  have hjl : j < g.adj.length := by rw [h.base.len]; exact hj
  by_cases he : g.uHasEdgeRaw i j = true
  · rw [uAddEdge_present g i j l hi hj he]
    have hraw : g.hasEdgeRaw i j = true := by rw [← h.uHasEdgeRaw_eq]; exact he
    apply AG.ext'
    · rfl
    · intro x y; simp [absU, AG.uAdd, hraw]
  · have he : g.uHasEdgeRaw i j = false := by simpa using he
    have hraw : g.hasEdgeRaw i j = false := by rw [← h.uHasEdgeRaw_eq]; exact he
    rw [uAddEdge_absent g i j l hi hj he]
    have hsz : (g.uAdded i j l).size = g.size := by
      simp only [uAdded, withEN_size, setLab_size]
      by_cases hij : i = j <;> simp [hij]
    have hlbl : (g.uAdded i j l).labelled = g.labelled := by
      simp only [uAdded, withEN_labelled, setLab_labelled]
      by_cases hij : i = j <;> simp [hij]
    apply AG.ext'
    · exact hsz
    · intro x y
      simp only [absU, AG.uAdd, hraw, Bool.false_eq_true, if_false, Option.isSome_none, and_true]
      have hmem : (g.uAdded i j l).hasEdgeRaw x y = true ↔ (g.hasEdgeRaw x y = true ∨ AG.samePair x y i j) := by
        rw [hasEdgeRaw_iff_mem, hasEdgeRaw_iff_mem, mem_nb_uAdded g i j x y l hil hjl]
        unfold AG.samePair; constructor
        · rintro (h1 | h1 | h1); exact Or.inl h1; exact Or.inr (Or.inl h1); exact Or.inr (Or.inr h1)
        · rintro (h1 | h1 | h1); exact Or.inl h1; exact Or.inr (Or.inl h1); exact Or.inr (Or.inr h1)
      by_cases hsp : AG.samePair x y i j
      · have h1 : (g.uAdded i j l).hasEdgeRaw x y = true := hmem.2 (Or.inr hsp)
        simp only [h1, hsp, if_true]
        congr 1
        rw [labD_eq, hlbl]
        by_cases hl : g.labelled = true
        · have hlabels : (g.uAdded i j l).labels = g.labels.insert (ordered i j) l := by
            simp only [uAdded, withEN_labels]
            rw [setLab_labels_true _ _ _ (by by_cases hij : i = j <;> simp [hij, hl])]
            by_cases hij : i = j <;> simp [hij]
          simp only [hl, if_true]
          rw [hlabels, AMap.get?_insert, if_pos ((ordered_eq_iff x y i j).2 hsp)]; rfl
        · have hl : g.labelled = false := by simpa using hl
          simp [hl]
      · simp only [hsp, if_false]
        by_cases hxe : g.hasEdgeRaw x y = true
        · have h1 : (g.uAdded i j l).hasEdgeRaw x y = true := hmem.2 (Or.inl hxe)
          simp only [h1, hxe, if_true]
          congr 1
          rw [labD_eq, labD_eq, hlbl]
          by_cases hl : g.labelled = true
          · have hlabels : (g.uAdded i j l).labels = g.labels.insert (ordered i j) l := by
              simp only [uAdded, withEN_labels]
              rw [setLab_labels_true _ _ _ (by by_cases hij : i = j <;> simp [hij, hl])]
              by_cases hij : i = j <;> simp [hij]
            simp only [hl, if_true]
            rw [hlabels, AMap.get?_insert, if_neg (fun hh => hsp ((ordered_eq_iff x y i j).1 hh))]
          · have hl : g.labelled = false := by simpa using hl
            simp [hl]
        · have h1 : ¬ (g.uAdded i j l).hasEdgeRaw x y = true := by
            intro hh; rcases hmem.1 hh with h2 | h2
            · exact hxe h2
            · exact hsp h2
          simp [h1, hxe]

/-! ### removeEdge -/
theorem absU_uRemoveEdgeCore (g : G L) (h : UInv g) (i j : Nat) :
    absU (g.uRemoveEdgeCore i j) = (absU g).uRemove i j := by
  apply AG.ext'
  · simp [absU, AG.uRemove]
  · intro x y
    simp only [absU, AG.uRemove]
    have hmem : (g.uRemoveEdgeCore i j).hasEdgeRaw x y = true ↔ (g.hasEdgeRaw x y = true ∧ ¬ AG.samePair x y i j) := by
      rw [hasEdgeRaw_iff_mem, hasEdgeRaw_iff_mem, mem_nb_uRemoveEdgeCore g h]
      unfold AG.samePair
      constructor
      · rintro ⟨h1, h2, h3⟩; exact ⟨h1, fun hh => hh.elim h2 h3⟩
      · rintro ⟨h1, h2⟩; exact ⟨h1, fun hh => h2 (Or.inl hh), fun hh => h2 (Or.inr hh)⟩
    by_cases hsp : AG.samePair x y i j
    · have : ¬ (g.uRemoveEdgeCore i j).hasEdgeRaw x y = true := fun hh => (hmem.1 hh).2 hsp
      simp [this, hsp]
    · simp only [hsp, if_false]
      by_cases hxe : g.hasEdgeRaw x y = true
      · have h1 : (g.uRemoveEdgeCore i j).hasEdgeRaw x y = true := hmem.2 ⟨hxe, hsp⟩
        simp only [h1, hxe, if_true]
        congr 1
        rw [labD_eq, labD_eq, uRemoveEdgeCore_labelled, labels_uRemoveEdgeCore g h]
        have : ¬ (j ∈ g.nb i ∧ ordered x y = ordered i j) := fun hh => hsp ((ordered_eq_iff x y i j).1 hh.2)
        rw [if_neg this]
      · have h1 : ¬ (g.uRemoveEdgeCore i j).hasEdgeRaw x y = true := fun hh => hxe (hmem.1 hh).1
        simp [h1, hxe]

/-! ### removeSelfLoops -/
theorem uRemoveSelfLoops_labelled_aux (is : List Nat) (g : G L) :
    (is.foldl (fun g i => g.uRemoveEdgeCore i i) g).labelled = g.labelled := by
  induction is generalizing g with
  | nil => rfl
  | cons i is ih => simp only [List.foldl_cons]; rw [ih]; simp

theorem absU_uRemoveSelfLoops (g : G L) (h : UInv g) :
    absU g.uRemoveSelfLoops = ⟨g.size, fun x y => if x = y then none else (absU g).lab x y⟩ := by
  apply AG.ext'
  · exact uRemoveSelfLoops_size_aux _ g
  · intro x y
    simp only [absU]
    have hmem : g.uRemoveSelfLoops.hasEdgeRaw x y = true ↔ (g.hasEdgeRaw x y = true ∧ x ≠ y) := by
      rw [hasEdgeRaw_iff_mem, hasEdgeRaw_iff_mem]; exact mem_nb_uRemoveSelfLoops g h x y
    by_cases hxy : x = y
    · have : g.uRemoveSelfLoops.hasEdgeRaw x y = false := by
        cases hh : g.uRemoveSelfLoops.hasEdgeRaw x y with
        | false => rfl
        | true => exact absurd hxy (hmem.1 hh).2
      rw [this]; simp [hxy]
    · simp only [hxy, if_false]
      by_cases hxe : g.hasEdgeRaw x y = true
      · have h1 : g.uRemoveSelfLoops.hasEdgeRaw x y = true := hmem.2 ⟨hxe, hxy⟩
        simp only [h1, hxe, if_true]
        congr 1
        have hlb : g.uRemoveSelfLoops.labelled = g.labelled := uRemoveSelfLoops_labelled_aux _ g
        rw [labD_eq, labD_eq, hlb]
        unfold uRemoveSelfLoops
        rw [labels_uRemoveSelfLoops_aux _ g h]
        unfold ordered; split <;> simp <;> omega
      · have h1 : ¬ g.uRemoveSelfLoops.hasEdgeRaw x y = true := fun hh => hxe (hmem.1 hh).1
        simp [h1, hxe]

/-! ### removeVertexFromEdgeList -/
theorem labels_foldl_uRVStep (v : Nat) (is : List Nat) (g : G L) (e : Edge) (h1 : e.1 ≠ v) (h2 : e.2 ≠ v) :
    (is.foldl (uRVStep v) g).labels.get? e = g.labels.get? e := by
  induction is generalizing g with
  | nil => rfl
  | cons i is ih =>
    simp only [List.foldl_cons]
    rw [ih]
    show AMap.get? ((((g.nb i).filter (fun j => i == v || j == v)).filter (fun j => decide (i ≤ j))).foldl
        (fun m j => AMap.erase m (i, j)) g.labels) e = _
    rw [AMap.get?_foldl_erase]
    have : ¬ (e.1 = i ∧ e.2 ∈ ((g.nb i).filter (fun j => i == v || j == v)).filter (fun j => decide (i ≤ j))) := by
      rintro ⟨rfl, hm⟩
      have := (List.mem_filter.1 (List.mem_filter.1 hm).1).2
      simp only [Bool.or_eq_true, beq_iff_eq] at this
      rcases this with h | h
      · exact h1 h
      · exact h2 h
    rw [if_neg this]

theorem absU_uRemoveVertex (g : G L) (h : UInv g) (v : Nat) (hv : v < g.size) :
    absU (g.uRemoveVertex v).1 = ⟨g.size, fun x y => if x = v ∨ y = v then none else (absU g).lab x y⟩ := by
  apply AG.ext'
  · show (g.uRemoveVertex v).1.size = g.size
    rw [uRemoveVertex_eq g v hv]; exact size_foldl_uRVStep v _ g
  · intro x y
    simp only [absU]
    have hmem : (g.uRemoveVertex v).1.hasEdgeRaw x y = true ↔ (g.hasEdgeRaw x y = true ∧ x ≠ v ∧ y ≠ v) := by
      rw [hasEdgeRaw_iff_mem, hasEdgeRaw_iff_mem]; exact mem_nb_uRemoveVertex g h v hv x y
    by_cases hxv : x = v ∨ y = v
    · have : ¬ (g.uRemoveVertex v).1.hasEdgeRaw x y = true := by
        intro hh; obtain ⟨_, h2, h3⟩ := hmem.1 hh
        rcases hxv with h4 | h4 <;> contradiction
      simp [this, hxv]
    · have hx : x ≠ v := fun e => hxv (Or.inl e)
      have hy : y ≠ v := fun e => hxv (Or.inr e)
      simp only [hxv, if_false]
      by_cases hxe : g.hasEdgeRaw x y = true
      · have h1 : (g.uRemoveVertex v).1.hasEdgeRaw x y = true := hmem.2 ⟨hxe, hx, hy⟩
        simp only [h1, hxe, if_true]
        congr 1
        rw [labD_eq, labD_eq, uRemoveVertex_eq g v hv, labelled_foldl_uRVStep, labels_foldl_uRVStep]
        · unfold ordered; split <;> simpa
        · unfold ordered; split <;> simpa
      · have h1 : ¬ (g.uRemoveVertex v).1.hasEdgeRaw x y = true := fun hh => hxe (hmem.1 hh).1
        simp [h1, hxe]

theorem absU_clearEdges (g : G L) : absU g.clearEdges = ⟨g.size, fun _ _ => none⟩ := by
  apply AG.ext'
  · rfl
  · intro x y; simp [absU, hasEdgeRaw_clearEdges]

theorem absU_resize (g : G L) (m : Nat) (hm : g.size ≤ m) : absU (g.resize m).1 = ⟨m, (absU g).lab⟩ := by
  have hlt : ¬ m < g.size := by omega
  apply AG.ext'
  · simp [absU, resize, hlt]
  · intro x y
    simp only [absU, hasEdgeRaw_resize]
    have : (g.resize m).1.labD (ordered x y) = g.labD (ordered x y) := by simp [resize, hlt, labD_eq]
    rw [this]

theorem absU_uSetEdgeLabel (g : G L) (h : UInv g) (i j : Nat) (l : L) (hi : i < g.size) (hj : j < g.size) :
    absU (g.uSetEdgeLabel i j l false).1 =
      ⟨g.size, fun x y => if AG.samePair x y i j ∧ ((absU g).lab i j).isSome = true
        then some (if g.labelled then l else default) else (absU g).lab x y⟩ := by
  unfold uSetEdgeLabel
  have hr : (g.inR i && g.inR j) = true := by simp [inR, hi, hj]
  simp only [hr, Bool.not_true, Bool.false_eq_true, if_false, Bool.not_false, Bool.true_and]
  by_cases he : g.uHasEdgeRaw i j = true
  · have hraw : g.hasEdgeRaw i j = true := by rw [← h.uHasEdgeRaw_eq]; exact he
    simp only [he, Bool.not_true, Bool.false_eq_true, if_false]
    apply AG.ext'
    · simp [absU]
    · intro x y
      simp only [absU, setLab_hasEdgeRaw, hraw, if_true, Option.isSome_some, and_true]
      by_cases hsp : AG.samePair x y i j
      · have hxe : g.hasEdgeRaw x y = true := by
          rcases hsp with ⟨rfl, rfl⟩ | ⟨rfl, rfl⟩
          · exact hraw
          · rw [hasEdgeRaw_iff_mem] at hraw ⊢; exact (h.sym _ _).1 hraw
        simp only [hxe, hsp, if_true]
        congr 1
        rw [labD_eq, setLab_labelled]
        by_cases hl : g.labelled = true
        · simp only [hl, if_true]
          rw [setLab_labels_true _ _ _ hl, AMap.get?_insert, if_pos ((ordered_eq_iff x y i j).2 hsp)]; rfl
        · have hl : g.labelled = false := by simpa using hl
          simp [hl]
      · simp only [hsp, if_false]
        by_cases hxe : g.hasEdgeRaw x y = true
        · simp only [hxe, if_true]
          congr 1
          rw [labD_eq, labD_eq, setLab_labelled]
          by_cases hl : g.labelled = true
          · simp only [hl, if_true]
            rw [setLab_labels_true _ _ _ hl, AMap.get?_insert, if_neg (fun hh => hsp ((ordered_eq_iff x y i j).1 hh))]
          · have hl : g.labelled = false := by simpa using hl
            simp [hl]
        · simp [hxe]
  · have he : g.uHasEdgeRaw i j = false := by simpa using he
    have hraw : g.hasEdgeRaw i j = false := by rw [← h.uHasEdgeRaw_eq]; exact he
    simp only [he, Bool.not_false, if_true]
    apply AG.ext'
    · rfl
    · intro x y; simp [absU, hraw]

/-! ### one call -/
theorem uinv_uStepM (g : G L) (h : UInv g) (op : SOp L) : UInv (g.uStepM op).1 := by
  cases op with
  | addEdge i j l => exact uinv_uAddEdge g h i j l
  | addReciprocalEdge i j l => exact h
  | removeEdge i j =>
    simp only [uStepM, uRemoveEdge]; split
    · exact h
    · exact uinv_uRemoveEdgeCore g h i j
  | removeSelfLoops => exact uinv_uRemoveSelfLoops g h
  | removeVertexFromEdgeList v => exact uinv_uRemoveVertex g h v
  | clearEdges => exact uinv_clearEdges g h
  | resize m => exact uinv_resize g m h
  | setEdgeLabel i j l => exact uinv_uSetEdgeLabel g h i j l

theorem uStepM_labelled (g : G L) (h : UInv g) (op : SOp L) : (g.uStepM op).1.labelled = g.labelled := by
  cases op with
  | addEdge i j l =>
    simp only [uStepM, uAddEdge]
    split
    · rfl
    · split
      · simp only [withEN_labelled, setLab_labelled]; split <;> simp
      · rfl
  | addReciprocalEdge i j l => rfl
  | removeEdge i j => simp only [uStepM, uRemoveEdge]; split <;> simp
  | removeSelfLoops => exact uRemoveSelfLoops_labelled_aux _ g
  | removeVertexFromEdgeList v =>
    simp only [uStepM]
    by_cases hv : v < g.size
    · rw [uRemoveVertex_eq g v hv]; exact labelled_foldl_uRVStep v _ g
    · simp [uRemoveVertex, inR, hv]
  | clearEdges => rfl
  | resize m => simp only [uStepM, resize]; split <;> rfl
  | setEdgeLabel i j l =>
    simp only [uStepM, uSetEdgeLabel]
    split
    · rfl
    · split
      · rfl
      · simp

/-- **Refinement square (undirected).** -/
theorem absU_uStepM (g : G L) (h : UInv g) (op : SOp L) (hv : op.valid g.size) :
    absU (g.uStepM op).1 = AG.uStep g.labelled (absU g) op := by
  cases op with
  | addEdge i j l => exact absU_uAddEdge g h i j l hv.1 hv.2
  | addReciprocalEdge i j l => rfl
  | removeEdge i j =>
    obtain ⟨hi, hj⟩ := hv
    simp only [uStepM, uRemoveEdge, AG.uStep, inR, hi, hj, decide_true, Bool.and_self, Bool.not_true,
      Bool.false_eq_true, if_false]
    exact absU_uRemoveEdgeCore g h i j
  | removeSelfLoops => exact absU_uRemoveSelfLoops g h
  | removeVertexFromEdgeList v => exact absU_uRemoveVertex g h v hv
  | clearEdges => exact absU_clearEdges g
  | resize m => exact absU_resize g m hv
  | setEdgeLabel i j l => exact absU_uSetEdgeLabel g h i j l hv.1 hv.2

theorem uStepM_size (g : G L) (h : UInv g) (op : SOp L) (hv : op.valid g.size) :
    (g.uStepM op).1.size = op.newSize g.size := by
  have := congrArg AG.n (absU_uStepM g h op hv)
  rw [AG.uStep_n] at this
  exact this

end G
end BGV
