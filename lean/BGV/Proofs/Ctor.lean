import BGV.Proofs.AddAll
import BGV.Proofs.RefineU
/-!
# BGV.Proofs.Ctor — the edge-list constructors: `resize(max+1)`-on-demand followed by unforced
`addEdge` produces *literally* the state obtained by creating the graph with
`1 + largest index` vertices first and adding the edges one at a time.
-/
set_option linter.unusedSectionVars false
namespace BGV
namespace G
variable {L : Type} [Inhabited L]

/-- number of vertices the constructor ends with, starting from `k` -/
def vcountFrom (k : Nat) (es : List (Nat × Nat × L)) : Nat :=
  es.foldl (fun n e => max n (max e.1 e.2.1 + 1)) k

/-- `1 + largest index`, `0` for an empty container -/
def vcount (es : List (Nat × Nat × L)) : Nat := vcountFrom 0 es

theorem vcountFrom_ge (k : Nat) (es : List (Nat × Nat × L)) : k ≤ vcountFrom k es := by
  induction es generalizing k with
  | nil => exact Nat.le_refl _
  | cons e es ih => exact Nat.le_trans (Nat.le_max_left _ _) (ih _)

/-- `resize` to at least the current size, as a pure function -/
def grow (h : G L) (n : Nat) : G L := (h.resize n).1

theorem grow_eq (h : G L) (n : Nat) (hn : h.size ≤ n) :
    h.grow n = ⟨h.labelled, n, h.adj ++ List.replicate (n - h.adj.length) [], h.edgeNumber, h.labels⟩ := by
  have : ¬ n < h.size := by omega
  simp [grow, resize, this]

theorem grow_self (h : G L) (hl : h.adj.length = h.size) : h.grow h.size = h := by
  rw [grow_eq h _ (Nat.le_refl _)]
  simp [hl]

theorem grow_grow (h : G L) (hl : h.adj.length = h.size) (n m : Nat) (hn : h.size ≤ n) (hm : n ≤ m) :
    (h.grow n).grow m = h.grow m := by
  rw [grow_eq h n hn, grow_eq h m (by omega), grow_eq _ m (by simpa using hm)]
  simp only [List.length_append, List.length_replicate, List.append_assoc, G.mk.injEq, true_and, and_true]
  congr 1
  rw [List.replicate_append_replicate]
  congr 1
  omega

theorem grow_size (h : G L) (n : Nat) (hn : h.size ≤ n) : (h.grow n).size = n := by rw [grow_eq h n hn]
theorem grow_len (h : G L) (hl : h.adj.length = h.size) (n : Nat) (hn : h.size ≤ n) :
    (h.grow n).adj.length = n := by
  rw [grow_eq h n hn]; simp; omega

/-- what the generic constructor needs from the class's unforced `addEdge` -/
structure AddOK (add : G L → Nat → Nat → L → Bool → G L × Res Unit) : Prop where
  ok : ∀ h i j l, i < h.size → j < h.size → (add h i j l false).2 = .ok ()
  size : ∀ h i j l, (add h i j l false).1.size = h.size
  len : ∀ h i j l, h.adj.length = h.size → (add h i j l false).1.adj.length = h.size
  comm : ∀ h i j l n, h.adj.length = h.size → i < h.size → j < h.size → h.size ≤ n →
    (add (h.grow n) i j l false).1 = (add h i j l false).1.grow n

def addOnly (add : G L → Nat → Nat → L → Bool → G L × Res Unit) (h : G L) (es : List (Nat × Nat × L)) : G L :=
  es.foldl (fun h e => (add h e.1 e.2.1 e.2.2 false).1) h

def ctorStep (add : G L → Nat → Nat → L → Bool → G L × Res Unit) (r : Res (G L)) (e : Nat × Nat × L) : Res (G L) :=
  let mx := max e.1 e.2.1
  let r1 := chain r (fun h => if mx ≥ h.size then h.resize (mx + 1) else (h, .ok ()))
  chain r1 (fun h => add h e.1 e.2.1 e.2.2 false)

theorem ofEdgeList_eq_fold (lb : Bool) (add) (es : List (Nat × Nat × L)) :
    ofEdgeList lb add es = es.foldl (ctorStep add) (.ok (G.new lb 0)) := rfl

theorem ctor_fold (add : G L → Nat → Nat → L → Bool → G L × Res Unit) (ha : AddOK add)
    (es : List (Nat × Nat × L)) (h : G L) (hl : h.adj.length = h.size) (n : Nat)
    (hn : vcountFrom h.size es ≤ n) :
    ∃ h', es.foldl (ctorStep add) (.ok h) = .ok h' ∧ h'.adj.length = h'.size ∧
      h'.size = vcountFrom h.size es ∧ h'.grow n = addOnly add (h.grow n) es := by
  induction es generalizing h with
  | nil => exact ⟨h, rfl, hl, rfl, rfl⟩
  | cons e es ih =>
    obtain ⟨i, j, l⟩ := e
    simp only [List.foldl_cons, vcountFrom] at hn ⊢
    -- the state after the optional resize
    let k := max h.size (max i j + 1)
    have hk : h.size ≤ k := Nat.le_max_left _ _
    have hgrow : chain (.ok h) (fun h => if max i j ≥ h.size then h.resize (max i j + 1) else (h, .ok ()))
        = .ok (h.grow k) := by
      simp only [chain, Res.bind]
      by_cases hc : max i j ≥ h.size
      · have hk' : k = max i j + 1 := by simp only [k]; omega
        have hlt : ¬ (max i j + 1 < h.size) := by omega
        simp only [hc, if_true, hk', grow, resize, hlt, if_false]
      · have hk' : k = h.size := by simp only [k]; omega
        simp only [hc, if_false, hk', grow_self h hl]
    have hik : i < k := by simp only [k]; omega
    have hjk : j < k := by simp only [k]; omega
    have hsz1 : (h.grow k).size = k := grow_size h k hk
    have hl1 : (h.grow k).adj.length = (h.grow k).size := by rw [hsz1]; exact grow_len h hl k hk
    have hok := ha.ok (h.grow k) i j l (by rw [hsz1]; exact hik) (by rw [hsz1]; exact hjk)
    have hstep : ctorStep add (.ok h) (i, j, l) = .ok (add (h.grow k) i j l false).1 := by
      simp only [ctorStep]
      rw [hgrow]
      simp only [chain, Res.bind]
      cases hr : add (h.grow k) i j l false with
      | mk h2 r2 =>
        rw [hr] at hok
        simp only at hok
        subst hok
        rfl
    rw [hstep]
    have hsz2 : (add (h.grow k) i j l false).1.size = k := by rw [ha.size, hsz1]
    have hl2 : (add (h.grow k) i j l false).1.adj.length = (add (h.grow k) i j l false).1.size := by
      rw [ha.len _ _ _ _ hl1, ha.size]
    have hvc : vcountFrom (max h.size (max i j + 1)) es = vcountFrom k es := rfl
    have hkn : k ≤ n := Nat.le_trans (vcountFrom_ge k es) (by rw [← hvc]; exact hn)
    obtain ⟨h', e1, e2, e3, e4⟩ := ih (add (h.grow k) i j l false).1 hl2 (by rw [hsz2]; exact hn)
    refine ⟨h', e1, e2, by rw [e3, hsz2]; rfl, ?_⟩
    rw [e4]
    simp only [addOnly, List.foldl_cons]
    congr 1
    rw [← ha.comm (h.grow k) i j l n hl1 (by rw [hsz1]; exact hik) (by rw [hsz1]; exact hjk) (by rw [hsz1]; exact hkn),
      grow_grow h hl k n hk hkn]

/-- **the constructor theorem, generic in the class's `addEdge`** -/
theorem ofEdgeList_eq (lb : Bool) (add : G L → Nat → Nat → L → Bool → G L × Res Unit) (ha : AddOK add)
    (es : List (Nat × Nat × L)) :
    ofEdgeList lb add es = .ok (addOnly add (G.new lb (vcount es)) es) := by
  rw [ofEdgeList_eq_fold]
  have hl0 : (G.new lb 0 : G L).adj.length = (G.new lb 0 : G L).size := by simp [G.new]
  obtain ⟨h', e1, e2, e3, e4⟩ := ctor_fold add ha es (G.new lb 0) hl0 (vcount es) (Nat.le_refl _)
  rw [e1]
  congr 1
  have hs : h'.size = vcount es := e3
  rw [← hs] at e4
  rw [grow_self h' e2] at e4
  rw [e4, hs]
  congr 1

/-! ### the two instances -/

theorem modify_append_left {α} (a b : List α) (i : Nat) (f : α → α) (hi : i < a.length) :
    (a ++ b).modify i f = a.modify i f ++ b := by
  apply List.ext_getElem?
  intro k
  simp only [List.getElem?_modify, List.getElem?_append]
  by_cases hk : k < a.length
  · simp [hk, List.getElem?_modify]
  · have : i ≠ k := by omega
    simp [hk, this]

theorem nb_grow (h : G L) (n k : Nat) : (h.grow n).nb k = h.nb k := nb_resize h n k

theorem push_grow (h : G L) (hl : h.adj.length = h.size) (i j n : Nat) (hi : i < h.size) (hn : h.size ≤ n) :
    (h.grow n).push i j = (h.push i j).grow n := by
  rw [grow_eq h n hn, grow_eq (h.push i j) n (by simpa using hn)]
  simp only [push, withAdj, List.length_modify]
  congr 1
  exact modify_append_left _ _ _ _ (by rw [hl]; exact hi)

theorem setLab_grow (h : G L) (e : Edge) (l : L) (n : Nat) (hn : h.size ≤ n) :
    (h.grow n).setLab e l = (h.setLab e l).grow n := by
  rw [grow_eq h n hn, grow_eq (h.setLab e l) n (by simpa using hn)]
  unfold setLab
  by_cases hlb : h.labelled = true <;> simp [hlb]

theorem withEN_grow (h : G L) (k n : Nat) (hn : h.size ≤ n) : (h.grow n).withEN k = (h.withEN k).grow n := by
  rw [grow_eq h n hn, grow_eq (h.withEN k) n (by simpa using hn)]; rfl

theorem hasEdgeRaw_grow (h : G L) (n i j : Nat) : (h.grow n).hasEdgeRaw i j = h.hasEdgeRaw i j := by
  simp only [hasEdgeRaw, nb_grow]

theorem addOK_dAddEdge : AddOK (fun (h : G L) i j l f => h.dAddEdge i j l f) := by
  refine ⟨?_, ?_, ?_, ?_⟩
  · intro h i j l hi hj; exact congrArg Prod.snd (dAddEdge_ok' h i j l hi hj) |>.trans rfl
  · intro h i j l; exact dAddEdge_size h i j l false
  · intro h i j l hl
    simp only [dAddEdge]
    split
    · exact hl
    · split
      · simp [push, hl]
      · exact hl
  · intro h i j l n hl hi hj hn
    have hr : (h.inR i && h.inR j) = true := by simp [inR, hi, hj]
    have hr' : ((h.grow n).inR i && (h.grow n).inR j) = true := by
      simp [inR, grow_size h n hn]; omega
    simp only [dAddEdge, hr, hr', Bool.not_true, Bool.false_eq_true, if_false, hasEdgeRaw_grow, Bool.false_or]
    split
    · have hen : (h.grow n).edgeNumber = h.edgeNumber := by rw [grow_eq h n hn]
      rw [hen, push_grow h hl i j n hi hn, withEN_grow _ _ _ (by simpa using hn), setLab_grow _ _ _ _ (by simpa using hn)]
    · rfl

theorem addOK_uAddEdge : AddOK (fun (h : G L) i j l f => h.uAddEdge i j l f) := by
  refine ⟨?_, ?_, ?_, ?_⟩
  · intro h i j l hi hj
    have hr : (h.inR i && h.inR j) = true := by simp [inR, hi, hj]
    simp only [uAddEdge, hr, Bool.not_true, Bool.false_eq_true, if_false, Bool.false_or]
    split <;> rfl
  · intro h i j l
    simp only [uAddEdge]
    split
    · rfl
    · split
      · simp only [withEN_size, setLab_size, push_size]; split <;> rfl
      · rfl
  · intro h i j l hl
    simp only [uAddEdge]
    split
    · exact hl
    · split
      · simp only [withEN_adj, setLab_adj, push, withAdj_adj, List.length_modify]
        split <;> simp [hl, withAdj]
      · exact hl
  · intro h i j l n hl hi hj hn
    have hr : (h.inR i && h.inR j) = true := by simp [inR, hi, hj]
    have hr' : ((h.grow n).inR i && (h.grow n).inR j) = true := by
      simp [inR, grow_size h n hn]; omega
    have hu : (h.grow n).uHasEdgeRaw i j = h.uHasEdgeRaw i j := by simp only [uHasEdgeRaw, hasEdgeRaw_grow]
    simp only [uAddEdge, hr, hr', Bool.not_true, Bool.false_eq_true, if_false, hu, Bool.false_or]
    split
    · have hen : (h.grow n).edgeNumber = h.edgeNumber := by rw [grow_eq h n hn]
      rw [hen]
      by_cases hij : i = j
      · subst hij
        simp only [ne_eq, not_true_eq_false, if_false]
        rw [push_grow h hl i i n hi hn, setLab_grow _ _ _ _ (by simpa using hn), withEN_grow _ _ _ (by simpa using hn)]
      · simp only [ne_eq, hij, not_false_eq_true, if_true]
        rw [push_grow h hl i j n hi hn, push_grow (h.push i j) (by simp [push, withAdj, hl]) j i n (by simpa using hj) (by simpa using hn),
          setLab_grow _ _ _ _ (by simpa using hn), withEN_grow _ _ _ (by simpa using hn)]
    · rfl

end G
end BGV
