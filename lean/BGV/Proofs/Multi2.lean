import BGV.Proofs.Multi
/-!
# BGV.Proofs.Multi2 — removals and `setEdgeMultiplicity` on `DirectedMultigraph`
-/
set_option linter.unusedSectionVars false
namespace BGV
namespace MG
open G

theorem get?_none_of_absent (m : MG) (h : MInv m) (i j : Nat) (he : m.g.hasEdgeRaw i j = false) :
    m.g.labels.get? (i, j) = none := by
  have := h.base.lab h.lbl i j
  rw [he] at this
  cases hg : m.g.labels.get? (i, j) with
  | none => rfl
  | some w => rw [hg] at this; cases this

theorem get?_some_of_present (m : MG) (h : MInv m) (i j : Nat) (he : m.g.hasEdgeRaw i j = true) :
    ∃ v, m.g.labels.get? (i, j) = some v ∧ 0 < v := by
  have hs := h.base.lab h.lbl i j
  rw [he] at hs
  obtain ⟨v, hv⟩ := Option.isSome_iff_exists.1 hs
  exact ⟨v, hv, h.pos _ _ hv⟩

/-! ## removeAllEdges (private helper; also `setEdgeMultiplicity(…,0)`) -/

theorem dRemoveAllCore_g (m : MG) (i j : Nat) : (m.dRemoveAllCore i j).g = m.g.dRemoveEdgeCore i j := rfl

theorem removed_count (m : MG) (h : MInv m) (i j : Nat) :
    (m.g.nb i).length - ((m.g.remove i j).nb i).length = if m.g.hasEdgeRaw i j then 1 else 0 := by
  rw [nb_remove]
  simp only [if_true]
  have := length_filter_ne_eq (m.g.nb i) j (h.base.nodup i)
  by_cases hm : j ∈ m.g.nb i
  · have he : m.g.hasEdgeRaw i j = true := by simpa [hasEdgeRaw] using hm
    simp only [hm, if_true, he] at this ⊢; omega
  · have he : m.g.hasEdgeRaw i j = false := by simpa [hasEdgeRaw] using hm
    simp only [hm, if_false, he] at this ⊢
    simp; omega

theorem dRemoveAllCore_total (m : MG) (h : MInv m) (i j : Nat) :
    (m.dRemoveAllCore i j).total = m.total - m.mult i j := by
  have hd : (default : Nat) = 0 := rfl
  simp only [dRemoveAllCore, removed_count m h i j, mult, cur_eq, labD, h.lbl, if_true, hd]
  by_cases he : m.g.hasEdgeRaw i j = true
  · simp only [he, if_true, Nat.mul_one]
    have hle := AMap.get?_le_sumVals m.g.labels (i, j)
    rw [subW_of_le (by rw [h.tot]; exact hle)]
  · have he : m.g.hasEdgeRaw i j = false := by simpa using he
    simp [he, get?_none_of_absent m h i j he]

theorem minv_dRemoveAllCore (m : MG) (h : MInv m) (i j : Nat) : MInv (m.dRemoveAllCore i j) := by
  refine ⟨inv_dRemoveEdgeCore m.g h.base i j, by rw [dRemoveAllCore_g]; simp [h.lbl],
    by rw [dRemoveAllCore_g]; exact keysNodup_dRemoveEdgeCore m.g i j h.keys, ?_, ?_⟩
  · intro e v hv
    rw [dRemoveAllCore_g, labels_dRemoveEdgeCore] at hv
    split at hv
    · cases hv
    · exact h.pos e v hv
  · rw [dRemoveAllCore_total m h, dRemoveAllCore_g]
    simp only [dRemoveEdgeCore, withLabels_labels]
    have := AMap.sumVals_erase m.g.labels (i, j) h.keys
    rw [h.tot, mult, cur_eq]; omega

theorem mult_dRemoveAllCore (m : MG) (i j a b : Nat) :
    (m.dRemoveAllCore i j).mult a b = if a = i ∧ b = j then 0 else m.mult a b := by
  simp only [mult, cur_eq, dRemoveAllCore_g, labels_dRemoveEdgeCore]
  by_cases hab : a = i ∧ b = j
  · obtain ⟨rfl, rfl⟩ := hab; simp
  · have : ¬ (a, b) = (i, j) := by intro hh; apply hab; simpa using hh
    simp [this, hab]

/-! ## removeMultiedge -/

theorem erase_eq_filter_of_nodup (l : List Nat) (j : Nat) (h : l.Nodup) : l.erase j = l.filter (· != j) :=
  List.Nodup.erase_eq_filter h j

theorem modify_congr {α} (a : List (List α)) (i : Nat) (f g : List α → List α) (h : f (a.getD i []) = g (a.getD i [])) :
    a.modify i f = a.modify i g := by
  apply List.ext_getElem?
  intro k
  simp only [List.getElem?_modify]
  by_cases hik : i = k
  · subst hik
    cases hk : a[i]? with
    | none => simp
    | some l =>
      have : a.getD i [] = l := by simp [List.getD_eq_getElem?_getD, hk]
      rw [this] at h
      simp [h]
  · simp [hik]

/-- when the whole multiplicity is removed, the state is that of `removeAllEdges` -/
theorem dRemoveMultiedge_all (m : MG) (h : MInv m) (i j k : Nat) (hi : i < m.g.size) (hj : j < m.g.size)
    (he : m.g.hasEdgeRaw i j = true) (hk : ¬ cur m.g (i, j) > k) :
    (m.dRemoveMultiedge i j k).1 = m.dRemoveAllCore i j := by
  have hr : (m.g.inR i && m.g.inR j) = true := by simp [inR, hi, hj]
  simp only [dRemoveMultiedge, hr, Bool.not_true, Bool.false_eq_true, if_false, he, hk]
  have hadj : m.g.adj.modify i (fun l => l.erase j) = m.g.adj.modify i (List.filter (· != j)) :=
    modify_congr _ _ _ _ (erase_eq_filter_of_nodup _ _ (h.base.nodup i))
  have hcnt := removed_count m h i j
  simp only [he, if_true] at hcnt
  have hd : (default : Nat) = 0 := rfl
  simp only [dRemoveAllCore, hcnt, Nat.mul_one, labD, h.lbl, if_true, cur_eq, hd]
  simp only [withLabels, withEN, remove, withAdj, hadj, h.lbl]

theorem minv_dRemoveMultiedge (m : MG) (h : MInv m) (i j k : Nat) : MInv (m.dRemoveMultiedge i j k).1 := by
  by_cases hr : i < m.g.size ∧ j < m.g.size
  · obtain ⟨hi, hj⟩ := hr
    by_cases he : m.g.hasEdgeRaw i j = true
    · by_cases hk : cur m.g (i, j) > k
      · have hr' : (m.g.inR i && m.g.inR j) = true := by simp [inR, hi, hj]
        simp only [dRemoveMultiedge, hr', Bool.not_true, Bool.false_eq_true, if_false, he, hk, if_true]
        obtain ⟨v, hv, _⟩ := get?_some_of_present m h i j he
        have hcv : cur m.g (i, j) = v := by simp [cur_eq, hv]
        refine ⟨?_, h.lbl, AMap.nodup_keys_insert _ _ _ h.keys, ?_, ?_⟩
        · refine ⟨h.base.len, h.base.nodup, h.base.bound, h.base.count, ?_, ?_⟩
          · intro _ a b
            simp only [withLabels_labels, withLabels_hasEdgeRaw]
            rw [AMap.get?_insert]
            by_cases hab : (a, b) = (i, j)
            · simp at hab; obtain ⟨rfl, rfl⟩ := hab; simp [he]
            · simp [hab, h.base.lab h.lbl a b]
          · intro hl
            have : m.g.labelled = false := hl
            rw [h.lbl] at this; cases this
        · intro e w hw
          simp only [withLabels_labels] at hw
          rw [AMap.get?_insert] at hw
          by_cases hei : e = (i, j)
          · simp only [hei, if_true, Option.some.injEq] at hw; omega
          · simp only [hei, if_false] at hw; exact h.pos e w hw
        · simp only [withLabels_labels]
          have := AMap.sumVals_insert m.g.labels (i, j) (cur m.g (i, j) - k) h.keys
          have hle := AMap.get?_le_sumVals m.g.labels (i, j)
          rw [hv] at this hle
          simp only [Option.getD_some] at this hle
          rw [subW_of_le (by rw [h.tot]; omega), h.tot]; omega
      · rw [dRemoveMultiedge_all m h i j k hi hj he hk]; exact minv_dRemoveAllCore m h i j
    · have he : m.g.hasEdgeRaw i j = false := by simpa using he
      have hr' : (m.g.inR i && m.g.inR j) = true := by simp [inR, hi, hj]
      simp only [dRemoveMultiedge, hr', Bool.not_true, Bool.false_eq_true, if_false, he, Bool.not_false, if_true]
      exact h
  · have : (m.g.inR i && m.g.inR j) = false := by
      simp only [inR, Bool.and_eq_false_iff, decide_eq_false_iff_not]
      by_cases hi : i < m.g.size
      · right; exact fun hj => hr ⟨hi, hj⟩
      · left; exact hi
    simp only [dRemoveMultiedge, this, Bool.not_false, if_true]; exact h

/-- `removeMultiedge(i,j,k)` lowers the multiplicity of (i,j) by `min k current`, nothing else -/
theorem mult_dRemoveMultiedge (m : MG) (h : MInv m) (i j k : Nat) (hi : i < m.g.size) (hj : j < m.g.size) (a b : Nat) :
    (m.dRemoveMultiedge i j k).1.mult a b = if a = i ∧ b = j then m.mult i j - min k (m.mult i j) else m.mult a b := by
  by_cases he : m.g.hasEdgeRaw i j = true
  · by_cases hk : cur m.g (i, j) > k
    · have hr' : (m.g.inR i && m.g.inR j) = true := by simp [inR, hi, hj]
      simp only [dRemoveMultiedge, hr', Bool.not_true, Bool.false_eq_true, if_false, he, hk, if_true, mult]
      simp only [cur_eq, withLabels_labels]
      rw [AMap.get?_insert]
      by_cases hab : a = i ∧ b = j
      · obtain ⟨rfl, rfl⟩ := hab
        simp only [if_true, Option.getD_some, and_self]
        have : k ≤ (m.g.labels.get? (a, b)).getD 0 := by simp only [cur_eq] at hk; omega
        omega
      · have : ¬ (a, b) = (i, j) := by intro hh; apply hab; simpa using hh
        simp [this, hab]
    · rw [dRemoveMultiedge_all m h i j k hi hj he hk, mult_dRemoveAllCore]
      by_cases hab : a = i ∧ b = j
      · simp only [hab, and_self, if_true]
        have : m.mult i j ≤ k := by simp only [mult]; omega
        omega
      · simp [hab]
  · have he : m.g.hasEdgeRaw i j = false := by simpa using he
    have hr' : (m.g.inR i && m.g.inR j) = true := by simp [inR, hi, hj]
    simp only [dRemoveMultiedge, hr', Bool.not_true, Bool.false_eq_true, if_false, he, Bool.not_false, if_true]
    by_cases hab : a = i ∧ b = j
    · obtain ⟨rfl, rfl⟩ := hab
      have := (mult_eq_zero_iff m h a b).2 he
      simp [this]
    · simp [hab]

/-! ## setEdgeMultiplicity -/

theorem minv_dSetEdgeMultiplicity (m : MG) (h : MInv m) (i j k : Nat) : MInv (m.dSetEdgeMultiplicity i j k).1 := by
  unfold dSetEdgeMultiplicity
  split
  · exact h
  · rename_i hr
    have hi : i < m.g.size ∧ j < m.g.size := by simpa [inR] using hr
    split
    · exact minv_dRemoveAllCore m h i j
    · rename_i hk
      split
      · rename_i he
        obtain ⟨v, hv, _⟩ := get?_some_of_present m h i j he
        refine ⟨?_, h.lbl, AMap.nodup_keys_insert _ _ _ h.keys, ?_, ?_⟩
        · refine ⟨h.base.len, h.base.nodup, h.base.bound, h.base.count, ?_, ?_⟩
          · intro _ a b
            simp only [withLabels_labels, withLabels_hasEdgeRaw]
            rw [AMap.get?_insert]
            by_cases hab : (a, b) = (i, j)
            · simp at hab; obtain ⟨rfl, rfl⟩ := hab; simp [he]
            · simp [hab, h.base.lab h.lbl a b]
          · intro hl
            have : m.g.labelled = false := hl
            rw [h.lbl] at this; cases this
        · intro e w hw
          simp only [withLabels_labels] at hw
          rw [AMap.get?_insert] at hw
          by_cases hei : e = (i, j)
          · simp only [hei, if_true, Option.some.injEq] at hw; omega
          · simp only [hei, if_false] at hw; exact h.pos e w hw
        · simp only [withLabels_labels]
          have := AMap.sumVals_insert m.g.labels (i, j) k h.keys
          have hle := AMap.get?_le_sumVals m.g.labels (i, j)
          rw [hv] at this hle
          simp only [Option.getD_some, cur_eq, hv] at this hle ⊢
          rw [subW_of_le (by rw [h.tot]; omega), h.tot]; omega
      · rename_i he
        have he : m.g.hasEdgeRaw i j = false := by simpa using he
        -- absent: forced addMultiedge = unforced one
        have : m.dAddMultiedge i j k true = m.dAddMultiedge i j k false := by
          simp [dAddMultiedge, he]
        rw [this]; exact minv_dAddMultiedge m h i j k

/-- `setEdgeMultiplicity(i,j,k)` makes the multiplicity of (i,j) exactly `k` (0 deletes the edge) -/
theorem mult_dSetEdgeMultiplicity (m : MG) (h : MInv m) (i j k : Nat) (hi : i < m.g.size) (hj : j < m.g.size) (a b : Nat) :
    (m.dSetEdgeMultiplicity i j k).1.mult a b = if a = i ∧ b = j then k else m.mult a b := by
  have hr : (m.g.inR i && m.g.inR j) = true := by simp [inR, hi, hj]
  simp only [dSetEdgeMultiplicity, hr, Bool.not_true, Bool.false_eq_true, if_false]
  by_cases hk : k = 0
  · subst hk; simp only [if_true]; exact mult_dRemoveAllCore m i j a b
  · simp only [hk, if_false]
    by_cases he : m.g.hasEdgeRaw i j = true
    · simp only [he, if_true, mult, cur_eq, withLabels_labels]
      rw [AMap.get?_insert]
      by_cases hab : a = i ∧ b = j
      · obtain ⟨rfl, rfl⟩ := hab; simp
      · have : ¬ (a, b) = (i, j) := by intro hh; apply hab; simpa using hh
        simp [this, hab]
    · have he' : m.g.hasEdgeRaw i j = false := by simpa using he
      simp only [he', Bool.false_eq_true, if_false]
      have : m.dAddMultiedge i j k true = m.dAddMultiedge i j k false := by simp [dAddMultiedge, he']
      rw [this, mult_dAddMultiedge m h i j k hi hj]
      by_cases hab : a = i ∧ b = j
      · obtain ⟨rfl, rfl⟩ := hab
        simp [(mult_eq_zero_iff m h a b).2 he']
      · simp [hab]

end MG
end BGV
