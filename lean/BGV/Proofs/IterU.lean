import BGV.Proofs.IterD
import BGV.Proofs.UInv
/-!
# BGV.Proofs.IterU — the undirected edge iterator (skip entries with `vertex > neighbour`)
enumerates exactly the entries `(i,j)` with `i ≤ j` of the flattened adjacency lists.
-/
set_option linter.unusedSectionVars false
namespace BGV
namespace G
variable {L : Type} [Inhabited L]

def keep (e : Edge) : Bool := decide (e.1 ≤ e.2)

theorem filter_dropWhile_not {α} (p : α → Bool) (l : List α) :
    (l.dropWhile (fun x => !p x)).filter p = l.filter p := by
  induction l with
  | nil => rfl
  | cons a l ih =>
    by_cases ha : p a = true
    · simp [List.dropWhile, ha]
    · have ha' : p a = false := by simpa using ha
      simp [List.dropWhile, ha', ih]

theorem dw_skip (l : List Edge) (e : Edge) (h : keep e = false) :
    (e :: l).dropWhile (fun e => !keep e) = l.dropWhile (fun e => !keep e) := by
  simp [List.dropWhile, h]

theorem dw_stop (l : List Edge) (e : Edge) (h : keep e = true) :
    (e :: l).dropWhile (fun e => !keep e) = e :: l := by
  simp [List.dropWhile, h]

theorem pairwise_of_all {α} (R : α → α → Prop) (h : ∀ x y, R x y) (l : List α) : l.Pairwise R := by
  induction l with
  | nil => exact List.Pairwise.nil
  | cons a l ih => exact List.Pairwise.cons (fun b _ => h a b) ih

theorem itAtEnd_iff (g : G L) (c : Nat × Nat) : g.itAtEnd c = true ↔ c = g.itEnd := by
  obtain ⟨v, p⟩ := c
  simp only [itAtEnd, itEnd, Bool.and_eq_true, beq_iff_eq, Prod.mk.injEq]
  constructor
  · rintro ⟨h1, h2⟩; subst h2; exact ⟨rfl, h1⟩
  · rintro ⟨h1, h2⟩; subst h1; exact ⟨h2, rfl⟩

/-- the loop of the undirected `operator++`, started from the directed successor `c'` -/
def uSkip (g : G L) : Nat → Nat × Nat → Nat × Nat
  | 0, c' => c'
  | f+1, c' =>
    if !g.itAtEnd c' && decide (c'.1 > (g.nb c'.1).getD c'.2 0)
    then uSkip g f (g.itNorm g.size (c'.1, c'.2 + 1)) else c'

theorem uItNext_eq (g : G L) (f : Nat) (c : Nat × Nat) :
    g.uItNext (f + 1) c = g.uSkip f (g.itNorm g.size (c.1, c.2 + 1)) := by
  induction f generalizing c with
  | zero =>
    rw [uItNext]
    split
    · rw [uItNext, uSkip]
    · rw [uSkip]
  | succ f ih =>
    rw [uItNext]
    rw [uSkip]
    split
    · rw [ih]
    · rfl

theorem uSkip_spec (g : G L) (f : Nat) (c : Nat × Nat) (hn : g.Normal c) (hf : (g.rest c.1 c.2).length ≤ f) :
    g.Normal (g.uSkip f c) ∧
    g.rest (g.uSkip f c).1 (g.uSkip f c).2 = (g.rest c.1 c.2).dropWhile (fun e => !keep e) := by
  induction f generalizing c with
  | zero =>
    have : g.rest c.1 c.2 = [] := List.eq_nil_of_length_eq_zero (by omega)
    simp [uSkip, hn, this]
  | succ f ih =>
    obtain ⟨v, p⟩ := c
    obtain ⟨hv, hn2⟩ := hn
    rw [uSkip]
    by_cases he : (v, p) = g.itEnd
    · have hat : g.itAtEnd (v, p) = true := (itAtEnd_iff g _).2 he
      simp only [hat, Bool.not_true, Bool.false_and, Bool.false_eq_true, if_false]
      have hs : 0 < g.size := by omega
      have h1 : v = g.endV := by rw [itEnd] at he; exact (Prod.mk.inj he).1
      have h2 : p = (g.nb g.endV).length := by rw [itEnd] at he; exact (Prod.mk.inj he).2
      refine ⟨⟨hv, Or.inr he⟩, ?_⟩
      show g.rest v p = _
      rw [h1, h2, rest_end g hs]; rfl
    · have hat : g.itAtEnd (v, p) = false := by
        cases h : g.itAtEnd (v, p) with
        | false => rfl
        | true => exact absurd ((itAtEnd_iff g _).1 h) he
      have hp : p < (g.nb v).length := by
        rcases hn2 with h | h
        · exact h
        · exact absurd h he
      have hrc := rest_cons g v p hp
      have hv' : v < g.size := hv
      simp only [hat, Bool.not_false, Bool.true_and]
      generalize hx : (g.nb v).getD p 0 = x at hrc ⊢
      by_cases hgt : v > x
      · simp only [hgt, decide_true, if_true]
        have hsp := itNorm_spec g g.size v (p + 1) hv' (by omega) (by omega)
        have hlen : (g.rest v (p + 1)).length ≤ f := by
          have : (g.rest v p).length ≤ f + 1 := hf
          rw [hrc, List.length_cons] at this; omega
        have := ih _ hsp.1 (by rw [hsp.2]; exact hlen)
        refine ⟨this.1, ?_⟩
        rw [this.2, hsp.2]
        show _ = (g.rest v p).dropWhile _
        rw [hrc]
        have hk : keep (v, x) = false := by
          simp only [keep, decide_eq_false_iff_not]; omega
        rw [dw_skip _ _ hk]
      · simp only [hgt, decide_false, Bool.false_eq_true, if_false]
        refine ⟨⟨hv, Or.inl hp⟩, ?_⟩
        show g.rest v p = (g.rest v p).dropWhile _
        rw [hrc]
        have hk : keep (v, x) = true := by
          simp only [keep, decide_eq_true_eq]; omega
        rw [dw_stop _ _ hk]

theorem head_keep_of_dropWhile {α} (p : α → Bool) (l : List α) :
    ∀ x ∈ (l.dropWhile (fun x => !p x)).head?, p x = true := by
  induction l with
  | nil => simp
  | cons a l ih =>
    by_cases ha : p a = true
    · simp [List.dropWhile, ha]
    · have ha' : p a = false := by simpa using ha
      simpa [List.dropWhile, ha'] using ih

theorem uCollect_spec (g : G L) (F fuel : Nat) (c : Nat × Nat) (hn : g.Normal c)
    (hk : ∀ e ∈ (g.rest c.1 c.2).head?, keep e = true)
    (hF : (g.rest c.1 c.2).length ≤ F + 1) (hf : (g.rest c.1 c.2).length < fuel) :
    g.itCollect (g.uItNext (F + 1)) fuel c = (g.rest c.1 c.2).filter keep := by
  induction fuel generalizing c with
  | zero => omega
  | succ f ih =>
    obtain ⟨v, p⟩ := c
    obtain ⟨hv, hn2⟩ := hn
    simp only [itCollect]
    by_cases he : (v, p) = g.itEnd
    · simp only [he, if_true]
      have hs : 0 < g.size := by omega
      have h1 : v = g.endV := by rw [itEnd] at he; exact (Prod.mk.inj he).1
      have h2 : p = (g.nb g.endV).length := by rw [itEnd] at he; exact (Prod.mk.inj he).2
      show [] = (g.rest v p).filter keep
      rw [h1, h2, rest_end g hs]; rfl
    · simp only [he, if_false]
      have hp : p < (g.nb v).length := by
        rcases hn2 with h | h
        · exact h
        · exact absurd h he
      have hrc := rest_cons g v p hp
      have hk0 : keep (v, (g.nb v).getD p 0) = true := by
        apply hk; show _ ∈ (g.rest v p).head?; rw [hrc]; simp
      show (v, (g.nb v).getD p 0) :: g.itCollect (g.uItNext (F + 1)) f (g.uItNext (F + 1) (v, p)) = (g.rest v p).filter keep
      rw [hrc, List.filter_cons_of_pos hk0]
      congr 1
      rw [uItNext_eq]
      have hsp := itNorm_spec g g.size v (p + 1) hv (by omega) (by omega)
      have hlen : (g.rest v (p + 1)).length ≤ F := by
        have : (g.rest v p).length ≤ F + 1 := hF
        rw [hrc] at this; simpa using this
      have hlen2 : (g.rest v (p + 1)).length < f := by
        have : (g.rest v p).length < f + 1 := hf
        rw [hrc] at this; simpa using this
      have hsk := uSkip_spec g F _ hsp.1 (by rw [hsp.2]; exact hlen)
      rw [hsp.2] at hsk
      have hle : ((g.rest v (p + 1)).dropWhile (fun e => !keep e)).length ≤ (g.rest v (p + 1)).length :=
        (List.dropWhile_sublist _).length_le
      rw [ih _ hsk.1 (by rw [hsk.2]; exact head_keep_of_dropWhile keep _) (by rw [hsk.2]; omega) (by rw [hsk.2]; omega),
        hsk.2, filter_dropWhile_not]

theorem edgeSeq_sorted (g : G L) : g.edgeSeq.Pairwise (fun a b => a.1 ≤ b.1) := by
  simp only [edgeSeq]
  rw [List.pairwise_flatMap]
  constructor
  · intro a _
    rw [List.pairwise_map]
    exact pairwise_of_all _ (fun _ _ => Nat.le_refl _) _
  · have : (List.range g.size).Pairwise (· < ·) := List.pairwise_lt_range
    refine this.imp ?_
    intro a b hab x hx y hy
    simp only [List.mem_map] at hx hy
    obtain ⟨_, _, rfl⟩ := hx
    obtain ⟨_, _, rfl⟩ := hy
    exact Nat.le_of_lt hab

theorem mem_edgeSeq (g : G L) (hl : g.adj.length = g.size) (i j : Nat) : (i, j) ∈ g.edgeSeq ↔ j ∈ g.nb i := by
  simp only [edgeSeq, List.mem_flatMap, List.mem_range, List.mem_map, Prod.mk.injEq]
  constructor
  · rintro ⟨a, _, b, hb, rfl, rfl⟩; exact hb
  · intro h
    refine ⟨i, ?_, j, h, rfl, rfl⟩
    by_cases hi : i < g.size
    · exact hi
    · rw [G.nb_of_ge g i (by omega)] at h; simp at h

/-- in a symmetric graph the first enumerated entry has `vertex ≤ neighbour` -/
theorem head_keep (g : G L) (hlen : g.adj.length = g.size) (hs : Sym g) : ∀ e ∈ g.edgeSeq.head?, keep e = true := by
  intro e he
  obtain ⟨v, j⟩ := e
  cases hl : g.edgeSeq with
  | nil => rw [hl] at he; simp at he
  | cons a l =>
    rw [hl] at he
    simp only [List.head?_cons, Option.mem_def, Option.some.injEq] at he
    subst he
    have hmem : (v, j) ∈ g.edgeSeq := by rw [hl]; simp
    have hjv : v ∈ g.nb j := (hs v j).1 ((mem_edgeSeq g hlen v j).1 hmem)
    have hmem2 : (j, v) ∈ g.edgeSeq := (mem_edgeSeq g hlen j v).2 hjv
    have hsorted := edgeSeq_sorted g
    rw [hl] at hsorted hmem2
    simp only [keep, decide_eq_true_eq]
    rcases List.mem_cons.1 hmem2 with h | h
    · have := (Prod.mk.inj h).1; omega
    · exact (List.pairwise_cons.1 hsorted).1 _ h

/-- **the undirected `edges()` traversal = the entries `i ≤ j` of the flattened lists** -/
theorem uEdges_eq (g : G L) (hl : g.adj.length = g.size) (hs : Sym g) :
    g.uEdges = g.edgeSeq.filter keep := by
  by_cases hz : g.size = 0
  · have h1 : g.edgeSeq = [] := by simp [edgeSeq, hz]
    simp only [uEdges, itBegin, hz, if_true, itCollect]
    simp [h1]
  · have hs' : 0 < g.size := by omega
    simp only [uEdges, itBegin, hz, if_false]
    have hsp := itNorm_spec g g.size 0 0 hs' (Nat.zero_le _) (by omega)
    have hlen : (g.rest 0 0).length = g.sumLen := by rw [← edgeSeq_eq_rest g hs', length_edgeSeq g hl]
    rw [uCollect_spec g g.sumLen _ _ hsp.1, hsp.2, edgeSeq_eq_rest g hs']
    · rw [hsp.2, ← edgeSeq_eq_rest g hs']; exact head_keep g hl hs
    · rw [hsp.2, hlen]; omega
    · rw [hsp.2, hlen]; omega

end G
end BGV
