import BGV.Proofs.Inv
/-!
# BGV.Proofs.IterD — the directed edge iterator (cursor machine) enumerates exactly the
flattened adjacency lists, for every shape (no vertices, no edges, leading/trailing isolated
vertices).
-/
set_option linter.unusedSectionVars false
namespace BGV
namespace G
variable {L : Type} [Inhabited L]

/-- edges from cursor `(v,p)` onwards -/
def rest (g : G L) (v p : Nat) : List Edge :=
  ((g.nb v).drop p).map (fun j => (v, j)) ++
    (List.range' (v + 1) (g.size - (v + 1))).flatMap (fun i => (g.nb i).map (fun j => (i, j)))

theorem rest_end (g : G L) (hs : 0 < g.size) : g.rest g.endV (g.nb g.endV).length = [] := by
  have : g.size - (g.endV + 1) = 0 := by simp [endV]; omega
  simp [rest, this]

theorem rest_skip (g : G L) (v : Nat) (hv : v + 1 < g.size) :
    g.rest v (g.nb v).length = g.rest (v + 1) 0 := by
  have h1 : g.size - (v + 1) = (g.size - (v + 1 + 1)) + 1 := by omega
  simp only [rest, List.drop_length, List.map_nil, List.nil_append, List.drop_zero]
  rw [h1, List.range'_succ]
  simp

theorem rest_cons (g : G L) (v p : Nat) (hp : p < (g.nb v).length) :
    g.rest v p = (v, (g.nb v).getD p 0) :: g.rest v (p + 1) := by
  have : (g.nb v).drop p = (g.nb v)[p] :: (g.nb v).drop (p + 1) := by
    rw [List.drop_eq_getElem_cons hp]
  have hd : (g.nb v).getD p 0 = (g.nb v)[p] := by simp [List.getD_eq_getElem?_getD, hp]
  unfold rest
  rw [this, hd]
  rfl

/-- a cursor is *normal* when it points at an element or is the end cursor -/
def Normal (g : G L) (c : Nat × Nat) : Prop :=
  c.1 < g.size ∧ (c.2 < (g.nb c.1).length ∨ c = g.itEnd)

theorem itNorm_spec (g : G L) (fuel v p : Nat) (hv : v < g.size) (hp : p ≤ (g.nb v).length)
    (hf : g.size - v ≤ fuel) :
    g.Normal (g.itNorm fuel (v, p)) ∧
      g.rest (g.itNorm fuel (v, p)).1 (g.itNorm fuel (v, p)).2 = g.rest v p := by
  induction fuel generalizing v p with
  | zero => omega
  | succ f ih =>
    simp only [itNorm]
    by_cases hc : p = (g.nb v).length ∧ v ≠ g.endV
    · obtain ⟨hp1, hv1⟩ := hc
      have hv2 : v + 1 < g.size := by simp only [endV] at hv1; omega
      simp only [hp1, hv1, ne_eq, not_false_eq_true, and_self, if_true]
      have := ih (v + 1) 0 hv2 (Nat.zero_le _) (by omega)
      rw [rest_skip g v hv2]
      exact this
    · simp only [hc, if_false]
      refine ⟨⟨hv, ?_⟩, trivial⟩
      by_cases hp1 : p = (g.nb v).length
      · right
        have : v = g.endV := by
          by_cases hv1 : v = g.endV
          · exact hv1
          · exact absurd ⟨hp1, hv1⟩ hc
        simp [itEnd, ← this, hp1]
      · left; show p < (g.nb v).length; omega

theorem itCollect_spec (g : G L) (fuel : Nat) (c : Nat × Nat) (hn : g.Normal c)
    (hf : (g.rest c.1 c.2).length < fuel) :
    g.itCollect g.dItNext fuel c = g.rest c.1 c.2 := by
  induction fuel generalizing c with
  | zero => omega
  | succ f ih =>
    obtain ⟨v, p⟩ := c
    obtain ⟨hv, hn2⟩ := hn
    simp only [itCollect]
    by_cases he : (v, p) = g.itEnd
    · simp only [he, if_true]
      have hs : 0 < g.size := by omega
      have h1 : v = g.endV := by rw [itEnd] at he; exact (Prod.mk.inj he).1
      have h2 : p = (g.nb g.endV).length := by rw [itEnd] at he; exact (Prod.mk.inj he).2
      show [] = g.rest v p
      rw [h1, h2, rest_end g hs]
    · simp only [he, if_false]
      have hp : p < (g.nb v).length := by
        rcases hn2 with h | h
        · exact h
        · exact absurd h he
      show (v, (g.nb v).getD p 0) :: g.itCollect g.dItNext f (g.dItNext (v, p)) = g.rest v p
      rw [rest_cons g v p hp]
      congr 1
      have hsp := itNorm_spec g g.size v (p + 1) hv (by omega) (by omega)
      simp only [dItNext]
      rw [ih _ hsp.1, hsp.2]
      rw [hsp.2]
      rw [rest_cons g v p hp] at hf
      simp only [List.length_cons] at hf
      omega

theorem edgeSeq_eq_rest (g : G L) (hs : 0 < g.size) : g.edgeSeq = g.rest 0 0 := by
  simp only [edgeSeq, rest, List.drop_zero]
  have : List.range g.size = 0 :: List.range' 1 (g.size - 1) := by
    rw [List.range_eq_range']
    have : g.size = (g.size - 1) + 1 := by omega
    rw [this, List.range'_succ]; simp
  rw [this]
  simp

theorem length_edgeSeq (g : G L) (hl : g.adj.length = g.size) : g.edgeSeq.length = g.sumLen := by
  simp only [edgeSeq, sumLen, nb, List.length_flatMap, List.length_map]
  rw [← hl]
  generalize g.adj = a
  induction a with
  | nil => simp
  | cons x xs ih =>
    rw [List.length_cons, List.range_succ_eq_map]
    simp only [List.map_cons, List.sum_cons, List.map_map, List.getD_cons_zero]
    rw [← ih]
    congr 1

/-- **the directed `edges()` traversal = the flattened adjacency lists** -/
theorem dEdges_eq (g : G L) (hl : g.adj.length = g.size) : g.dEdges = g.edgeSeq := by
  by_cases hs : g.size = 0
  · have h1 : g.edgeSeq = [] := by simp [edgeSeq, hs]
    simp only [dEdges, itBegin, hs, if_true, itCollect]
    simp [h1]
  · have hs' : 0 < g.size := by omega
    simp only [dEdges, itBegin, hs, if_false]
    have hsp := itNorm_spec g g.size 0 0 hs' (Nat.zero_le _) (by omega)
    rw [itCollect_spec g _ _ hsp.1, hsp.2, edgeSeq_eq_rest g hs']
    rw [hsp.2, ← edgeSeq_eq_rest g hs', length_edgeSeq g hl]
    omega

/-- `begin() == end()` exactly when there is no edge -/
theorem itBegin_eq_end_iff (g : G L) (hl : g.adj.length = g.size) :
    g.itBegin = g.itEnd ↔ g.edgeSeq = [] := by
  by_cases hs : g.size = 0
  · simp [itBegin, hs, edgeSeq]
  · have hs' : 0 < g.size := by omega
    simp only [itBegin, hs, if_false]
    have hsp := itNorm_spec g g.size 0 0 hs' (Nat.zero_le _) (by omega)
    rw [edgeSeq_eq_rest g hs', ← hsp.2]
    constructor
    · intro h; rw [h]; exact rest_end g hs'
    · intro h
      rcases hsp.1.2 with hlt | heq
      · rw [rest_cons g _ _ hlt] at h; simp at h
      · exact heq

end G
end BGV
