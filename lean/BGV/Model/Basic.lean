/-!
# BGV.Model.Basic — outcomes, size_t arithmetic, association maps

Shared vocabulary of the executable model of BaseGraph (see /verif/DESIGN.md §3).
Core Lean only (no Mathlib) so that the driver can be linked as a `lean_exe`.
-/
namespace BGV

/-- The three exception classes the library documents. -/
inductive Exc where
  | oor   -- std::out_of_range
  | inv   -- std::invalid_argument
  | rte   -- std::runtime_error
  deriving DecidableEq, Repr

def Exc.name : Exc → String
  | .oor => "oor"
  | .inv => "inv"
  | .rte => "rte"

/-- Outcome of a call: a value, a documented exception, or undefined behaviour. -/
inductive Res (α : Type) where
  | ok (a : α)
  | threw (e : Exc)
  | ub
  deriving DecidableEq, Repr

def Res.isOk {α} : Res α → Bool
  | .ok _ => true
  | _ => false

def Res.map {α β} (f : α → β) : Res α → Res β
  | .ok a => .ok (f a)
  | .threw e => .threw e
  | .ub => .ub

def Res.bind {α β} (r : Res α) (f : α → Res β) : Res β :=
  match r with
  | .ok a => f a
  | .threw e => .threw e
  | .ub => .ub

/-- 2^64, the modulus of `size_t` on the platforms the library targets. -/
def W64 : Nat := 18446744073709551616

/-- `a -= b` on a `size_t`: wraps when `b > a`. Every decrement in the model goes
through this function; the invariants prove `b ≤ a` at each site, so the
wrap-around branch is never taken from a reachable state. -/
def subW (a b : Nat) : Nat := if b ≤ a then a - b else a + W64 - b

theorem subW_of_le {a b : Nat} (h : b ≤ a) : subW a b = a - b := by simp [subW, h]

@[simp] theorem subW_zero (a : Nat) : subW a 0 = a := by simp [subW]

abbrev Edge := Nat × Nat

/-- Association-list model of `std::unordered_map<Edge, L>`: at most one entry per key
(maintained by `insert`), iteration order never observed. -/
abbrev AMap (L : Type) := List (Edge × L)

namespace AMap
variable {L : Type}

def empty : AMap L := []
def get? (m : AMap L) (k : Edge) : Option L := List.lookup k m
def erase (m : AMap L) (k : Edge) : AMap L := List.filter (fun p => p.1 != k) m
def insert (m : AMap L) (k : Edge) (v : L) : AMap L := (k, v) :: erase m k
def contains (m : AMap L) (k : Edge) : Bool := (get? m k).isSome
def keys (m : AMap L) : List Edge := List.map Prod.fst m
def size (m : AMap L) : Nat := List.length m

/-- `unordered_map::operator==`: same number of entries and every entry of `a` is in `b`
with an equal value. -/
def beq [BEq L] (a b : AMap L) : Bool :=
  a.size == b.size && List.all a (fun p => get? b p.1 == some p.2)

@[simp] theorem get?_empty (k : Edge) : get? (empty : AMap L) k = none := rfl
@[simp] theorem get?_nil (k : Edge) : get? ([] : AMap L) k = none := rfl

theorem get?_erase (m : AMap L) (k k' : Edge) :
    get? (erase m k) k' = if k' = k then none else get? m k' := by
  induction m with
  | nil => simp [erase, get?]
  | cons p m ih =>
    obtain ⟨a, v⟩ := p
    simp only [erase, get?] at ih ⊢
    by_cases h : a = k
    · subst h
      simp [List.filter, List.lookup]
      by_cases h2 : k' = a
      · subst h2; simpa using ih
      · have : (k' == a) = false := by simpa using h2
        simp [this, h2] at ih ⊢; exact ih
    · have hne : (a != k) = true := by simpa using h
      simp only [List.filter, hne, List.lookup]
      by_cases h2 : k' = a
      · subst h2; simp [h]
      · have : (k' == a) = false := by simpa using h2
        simp [this]; exact ih

theorem get?_insert (m : AMap L) (k k' : Edge) (v : L) :
    get? (insert m k v) k' = if k' = k then some v else get? m k' := by
  unfold insert
  by_cases h : k' = k
  · subst h; simp [get?, List.lookup]
  · have : (k' == k) = false := by simpa using h
    have := get?_erase m k k'
    simp [get?, List.lookup, *] at *
    exact this

end AMap
end BGV
