import BGV.Model.Paths
/-!
# BGV.Model.PathHelpers — the public path-reconstruction functions called directly

`findPathToVertexFromPredecessors` / `findMultiplePathsToVertexFromPredecessors` (with and without an
explicit source) are public: a client may pass them the result of a predecessor search from *any*
vertex.  `ps` is the vertex the predecessor search was run from.
-/
namespace BGV
open G Bfs

/-- `findSourceVertex`: the first vertex at distance 0, `invalid_argument` when there is none -/
def findSourceVertex (dist : List Nat) : Res Nat :=
  match dist.findIdx? (· == 0) with
  | some s => .ok s
  | none => .threw .inv

def rangeBoth {L : Type} (g : G L) (s t : Nat) : Bool := decide (s < g.size) && decide (t < g.size)

/-- `findPathToVertexFromPredecessors(graph, source, destination, findVertexPredecessors(graph, ps))` -/
def pathTo {L : Type} (g : G L) (ps s t : Nat) : Res (List Nat) :=
  (findVertexPredecessors g ps).bind (fun r =>
    if !rangeBoth g s t then .threw .oor else findPathFromPredecessors r.pred s t)

/-- the overload without a source: `findSourceVertex` first -/
def pathTo3 {L : Type} (g : G L) (ps t : Nat) : Res (List Nat) :=
  (findVertexPredecessors g ps).bind (fun r =>
    (findSourceVertex r.dist).bind (fun s =>
      if !rangeBoth g s t then .threw .oor else findPathFromPredecessors r.pred s t))

def allPathsTo {L : Type} (g : G L) (ps s t : Nat) : Res (List (List Nat)) :=
  (findAllVertexPredecessors g ps).bind (fun r =>
    if !rangeBoth g s t then .threw .oor else findMultiplePathsFromPredecessors r.preds s t)

def allPathsTo3 {L : Type} (g : G L) (ps t : Nat) : Res (List (List Nat)) :=
  (findAllVertexPredecessors g ps).bind (fun r =>
    (findSourceVertex r.dist).bind (fun s =>
      if !rangeBoth g s t then .threw .oor else findMultiplePathsFromPredecessors r.preds s t))

end BGV
