import BGV.Model.Graph
/-!
# BGV.Model.FileIO — text and binary edge lists (fileio.hpp)

A file is a list of bytes.  `getline`, `find_first_of`, `find_first_not_of`, `substr` (throws
iff `pos > size`, `npos` included), `stoi` and the loaders are modelled statement by statement.
Label codecs are parameters (`toStr`, `ofStr`; `width`, `toBytes`, `ofBytes`).
-/
namespace BGV
namespace FIO

abbrev Bytes := List UInt8

/-! ## decimal printing (`operator<<` on unsigned / `std::to_string` on int) -/
def digitsAux : Nat → Nat → List UInt8 → List UInt8
  | 0, _, acc => acc
  | f+1, n, acc => if n < 10 then (UInt8.ofNat (48 + n)) :: acc else digitsAux f (n / 10) (UInt8.ofNat (48 + n % 10) :: acc)
def showNat (n : Nat) : Bytes := digitsAux (n + 1) n []
def showInt (z : Int) : Bytes := if z < 0 then 45 :: showNat z.natAbs else showNat z.toNat

/-! ## the writers -/
def sp : UInt8 := 32
def nl : UInt8 := 10
def header : Bytes := "# Vertex1 Vertex2 Label\n".toUTF8.toList

/-- `writeTextEdgeList` over the sequence `edges()` yields, with the label of each edge -/
def writeText (labelled : Bool) {L : Type} (toStr : L → Bytes) (es : List (Nat × Nat × L)) : Bytes :=
  header ++ es.flatMap (fun e =>
    showNat e.1 ++ [sp] ++ showNat e.2.1 ++ (if labelled then [sp] ++ toStr e.2.2 else []) ++ [nl])

def le32 (n : Nat) : Bytes :=
  [UInt8.ofNat (n % 256), UInt8.ofNat (n / 256 % 256), UInt8.ofNat (n / 65536 % 256), UInt8.ofNat (n / 16777216 % 256)]

/-- `writeBinaryEdgeList`: one record per edge -/
def writeBin {L : Type} (toBytes : L → Bytes) (es : List (Nat × Nat × L)) : Bytes :=
  es.flatMap (fun e => le32 e.1 ++ le32 e.2.1 ++ toBytes e.2.2)

/-! ## std::string primitives -/
def isWs (c : UInt8) : Bool := c == 32 || c == 9 || c == 10 || c == 13 || c == 12 || c == 11

/-- `s.find_first_not_of(ws, pos)`; `none` = `npos` (also for `pos = npos`) -/
def findNotWs (s : Bytes) : Option Nat → Option Nat
  | none => none
  | some pos => ((s.drop pos).findIdx? (fun c => !isWs c)).map (· + pos)
def findWs (s : Bytes) : Option Nat → Option Nat
  | none => none
  | some pos => ((s.drop pos).findIdx? isWs).map (· + pos)

/-- `s.substr(pos, endPos - pos)`; throws `out_of_range` iff `pos > size` (always for `npos`) -/
def substr (s : Bytes) (pos endPos : Option Nat) : Res Bytes :=
  match pos with
  | none => .threw .oor
  | some p =>
    if p > s.length then .threw .oor
    else match endPos with
      | none => .ok (s.drop p)
      | some e => .ok ((s.drop p).take (e - p))

/-- `findEdgeFromString` -/
def findEdgeFromString (s : Bytes) : Res (Bytes × Bytes × Bytes) :=
  let pos1 := findNotWs s (some 0)
  let pos2 := findWs s pos1
  let pos3 := findNotWs s pos2
  let pos4 := findWs s pos3
  let pos5 := findNotWs s pos4
  (substr s pos1 pos2).bind (fun a =>
    (substr s pos3 pos4).bind (fun b =>
      match pos5 with
      | none => .ok (a, b, [])
      | some p => (substr s (some p) none).map (fun c => (a, b, c))))

/-- lines as `getline` delivers them -/
def splitLines (s : Bytes) : List Bytes :=
  let rec go : Bytes → Bytes → List Bytes
    | [], cur => if cur.isEmpty then [] else [cur.reverse]
    | c :: cs, cur => if c == nl then cur.reverse :: go cs [] else go cs (c :: cur)
  go s []

/-- `std::stoi(str)`: skip leading whitespace, optional sign, decimal digits (a prefix is enough);
`invalid_argument` without a digit, `out_of_range` outside `int`. -/
def isDigit (c : UInt8) : Bool := 48 ≤ c && c ≤ 57

def stoiDigits (neg : Bool) (ds : Bytes) : Res Int :=
  if ds.isEmpty then .threw .inv
  else
    let v : Nat := ds.foldl (fun a c => a * 10 + (c.toNat - 48)) 0
    let z : Int := if neg then -(v : Int) else (v : Int)
    if z < -2147483648 ∨ z > 2147483647 then .threw .oor else .ok z

def stoi (s : Bytes) : Res Int :=
  match s.dropWhile isWs with
  | c :: r =>
    if c == 45 then stoiDigits true (r.takeWhile isDigit)
    else if c == 43 then stoiDigits false (r.takeWhile isDigit)
    else stoiDigits false ((c :: r).takeWhile isDigit)
  | [] => stoiDigits false []

/-- vertex parser of `loadTextEdgeList` (as repaired: negative indices are rejected) -/
def vertexOfIndex (s : Bytes) : Res Nat :=
  (stoi s).bind (fun z => if z < 0 then .threw .oor else .ok z.toNat)

/-! ## loadTextVertexLabeledEdgeList -/

structure LoadSt (L : Type) where
  g : G L
  names : List Bytes
  table : List (Bytes × Nat)     -- VertexCountMapper: name ↦ index, in order of first appearance

def setName (names : List Bytes) (i : Nat) (x : Bytes) : List Bytes := names.set i x

/-- the vertex-name function: `none` = indexed (`stoi`), `some` = `VertexCountMapper` state -/
def vertexOf {L : Type} (named : Bool) (st : LoadSt L) (tok : Bytes) : Res (Nat × LoadSt L) :=
  if named then
    match st.table.lookup tok with
    | some i => .ok (i, st)
    | none => let i := st.table.length; .ok (i, ⟨st.g, st.names, st.table ++ [(tok, i)]⟩)
  else (vertexOfIndex tok).map (fun i => (i, st))

/-- one line of the file -/
def loadLine {L : Type} [Inhabited L] (und named : Bool) (ofStr : Bytes → Res L) (st : LoadSt L) (line : Bytes) :
    Res (LoadSt L) :=
  if line.head? == some 35 then .ok st       -- '#'
  else
    (findEdgeFromString line).bind (fun (a, b, c) =>
      (vertexOf named st a).bind (fun (v1, st1) =>
        (vertexOf named st1 b).bind (fun (v2, st2) =>
          let mx := max v1 v2
          let g1 := if mx ≥ st2.g.size then (st2.g.resize (mx + 1)).1 else st2.g
          let nm := if mx ≥ st2.g.size then st2.names ++ List.replicate (mx + 1 - st2.names.length) [] else st2.names
          let nm := setName (setName nm v1 a) v2 b
          (ofStr c).bind (fun l =>
            let r := if und then g1.uAddEdge v1 v2 l true else g1.dAddEdge v1 v2 l true
            match r with
            | (g2, .ok _) => .ok ⟨g2, nm, st2.table⟩
            | (_, .threw e) => .threw e
            | (_, .ub) => .ub))))

def loadText {L : Type} [Inhabited L] (und named labelled : Bool) (ofStr : Bytes → Res L) (file : Bytes) :
    Res (G L × List Bytes) :=
  let init : Res (LoadSt L) := .ok ⟨G.new labelled 0, [], []⟩
  ((splitLines file).foldl (fun (r : Res (LoadSt L)) line => r.bind (fun st => loadLine und named ofStr st line))
    init).map (fun st => (st.g, st.names))

/-! ## loadBinaryEdgeList -/

def ofLe32 (b : Bytes) : Nat :=
  (b.getD 0 0).toNat + 256 * (b.getD 1 0).toNat + 65536 * (b.getD 2 0).toNat + 16777216 * (b.getD 3 0).toNat

/-- complete records of a file with `width`-byte labels, in order (as repaired: a record counts
only if every field was read completely) -/
def binRecords {L : Type} (width : Nat) (ofBytes : Bytes → L) : Nat → Bytes → List (Nat × Nat × L)
  | 0, _ => []
  | fuel+1, b =>
    if b.length < 8 + width then []
    else (ofLe32 (b.take 4), ofLe32 ((b.drop 4).take 4), ofBytes ((b.drop 8).take width)) ::
          binRecords width ofBytes fuel (b.drop (8 + width))

def loadBinStep {L : Type} [Inhabited L] (und : Bool) (r : Res (G L)) (e : Nat × Nat × L) : Res (G L) :=
  r.bind (fun g =>
    let g1 := if e.1 ≥ g.size then (g.resize (e.1 + 1)).1 else g
    let g2 := if e.2.1 ≥ g1.size then (g1.resize (e.2.1 + 1)).1 else g1
    match (if und then g2.uAddEdge e.1 e.2.1 e.2.2 true else g2.dAddEdge e.1 e.2.1 e.2.2 true) with
    | (g3, .ok _) => .ok g3
    | (_, .threw x) => .threw x
    | (_, .ub) => .ub)

def loadBin {L : Type} [Inhabited L] (und labelled : Bool) (width : Nat) (ofBytes : Bytes → L) (file : Bytes) :
    Res (G L) :=
  (binRecords width ofBytes (file.length + 1) file).foldl (loadBinStep und) (.ok (G.new labelled 0))

/-! ## fixed-width little-endian integer codecs -/
def leBytes (width : Nat) (z : Int) : Bytes :=
  let m : Nat := (z % (256 ^ width : Nat)).toNat
  (List.range width).map (fun k => UInt8.ofNat (m / 256 ^ k % 256))

def ofLeBytes (signed : Bool) (width : Nat) (b : Bytes) : Int :=
  let m : Nat := (List.range width).foldl (fun a k => a + (b.getD k 0).toNat * 256 ^ k) 0
  if signed && decide (m ≥ 256 ^ width / 2) then (m : Int) - (256 ^ width : Nat) else (m : Int)

/-! ## the writers applied to a graph: `for (auto edge : graph.edges())` with `getEdgeLabel` -/
def seqR {α : Type} : List (Res α) → Res (List α)
  | [] => .ok []
  | r :: rs => r.bind (fun a => (seqR rs).map (fun as => a :: as))

def edgesWithLabels {L : Type} [Inhabited L] (und : Bool) (g : G L) : Res (List (Nat × Nat × L)) :=
  seqR ((if und then g.uEdges else g.dEdges).map (fun e =>
    (if und then g.uGetEdgeLabel e.1 e.2 true else g.dGetEdgeLabel e.1 e.2 true).map (fun l => (e.1, e.2, l))))

def writeTextGraph {L : Type} [Inhabited L] (und : Bool) (g : G L) (toStr : L → Bytes) : Res Bytes :=
  (edgesWithLabels und g).map (writeText g.labelled toStr)

def writeBinGraph {L : Type} [Inhabited L] (und : Bool) (g : G L) (toBytes : L → Bytes) : Res Bytes :=
  (edgesWithLabels und g).map (writeBin toBytes)

/-! ## IEEE-754 encodings of the quarter-unit values used for `double` / `float` labels -/
def log2Aux : Nat → Nat → Nat → Nat
  | 0, _, acc => acc
  | f+1, m, acc => if m ≤ 1 then acc else log2Aux f (m / 2) (acc + 1)
def ilog2 (m : Nat) : Nat := log2Aux (m + 1) m 0

/-- bits of the binary floating-point number `k/4` with `mb` mantissa bits and exponent bias `bias`
(exact for the small values used) -/
def ieeeBits (mb bias : Nat) (k : Int) : Nat :=
  if k = 0 then 0 else
  let m := k.natAbs
  let e := ilog2 m
  let biased := e + bias - 2
  let frac := (m - 2 ^ e) * 2 ^ (mb - e)
  (if k < 0 then 2 ^ (mb + (if mb = 52 then 11 else 8)) else 0) + biased * 2 ^ mb + frac

def ieeeBytes (width mb bias : Nat) (k : Int) : Bytes :=
  let b := ieeeBits mb bias k
  (List.range width).map (fun i => UInt8.ofNat (b / 256 ^ i % 256))

/-- inverse on exactly representable quarter values; 999999999 marks anything else -/
def ofIeee (width mb bias : Nat) (b : Bytes) : Int :=
  let bits : Nat := (List.range width).foldl (fun a k => a + (b.getD k 0).toNat * 256 ^ k) 0
  let eb := if mb = 52 then 11 else 8
  let neg := bits / 2 ^ (mb + eb) % 2 == 1
  let biased := bits / 2 ^ mb % 2 ^ eb
  let frac := bits % 2 ^ mb
  if biased == 0 && frac == 0 then 0
  else if biased == 0 || biased == 2 ^ eb - 1 then 999999999
  else
    let m := 2 ^ mb + frac
    -- value*4 = m * 2^(biased - bias - mb + 2)
    let up := biased + 2
    let down := bias + mb
    let q : Option Nat := if up ≥ down then some (m * 2 ^ (up - down))
                          else if m % 2 ^ (down - up) == 0 then some (m / 2 ^ (down - up)) else none
    match q with
    | some v => if neg then -(v : Int) else (v : Int)
    | none => 999999999

end FIO
end BGV
