import BGV.Model.Graph
import BGV.Model.Weighted
import BGV.Algo.Bfs3
import BGV.Algo.Dij
/-!
# BGV.Model.Paths — algorithms/paths.hpp

* `findVertexPredecessors`  = `Bfs.loopG` (queue loop, mark on discovery; the ghost list of
  expanded vertices doubles as the scan log: one `getOutNeighbours` call per entry).
* `findAllVertexPredecessors` = `AllPred.loop` (as repaired: a vertex is enqueued on first
  discovery only).
* `findPathToVertexFromPredecessors`, `findMultiplePathsToVertexFromPredecessors`: the parent
  walk and the two-stack machine, with fuel (exhaustion = the C++ loop would not terminate).
* `findGeodesics*` wrappers (as repaired: source / destination are range-checked first).
* `findGeodesicsDijkstra`: push-on-improvement worklist; which minimal element the heap yields is
  an oracle input (the pop order observed on the implementation), checked for legality.
-/
namespace BGV
open Bfs (MAX)

abbrev Adj := List (List Nat)

/-- every stored neighbour is a valid vertex -/
def adjWF (adj : Adj) : Bool := adj.all (fun l => l.all (fun j => decide (j < adj.length)))

/-! ## findVertexPredecessors -/

structure BfsOut where
  dist : List Nat
  pred : List Nat
  scans : List Nat     -- arguments of the successive getOutNeighbours calls

def bfsRun (adj : Adj) (s : Nat) : BfsOut :=
  let r := Bfs.loopG adj (2 * adj.length + 1) (Bfs.init adj.length s) []
  ⟨r.1.dist, r.1.pred, r.2⟩

/-- `findVertexPredecessors(graph, vertex)` (as repaired: the vertex is range-checked) -/
def findVertexPredecessors {L : Type} (g : G L) (s : Nat) : Res BfsOut :=
  if !(decide (s < g.size)) then .threw .oor
  else if !adjWF g.adj then .ub
  else .ok (bfsRun g.adj s)

/-! ## findAllVertexPredecessors -/
namespace AllPred

structure St where
  dist : List Nat
  preds : List (List Nat)
  processed : List Bool
  queue : List Nat

def St.d (st : St) (v : Nat) : Nat := st.dist.getD v MAX
def St.ps (st : St) (v : Nat) : List Nat := st.preds.getD v []
def St.pr (st : St) (v : Nat) : Bool := st.processed.getD v false

/-- body of the inner `for` loop for one neighbour `w` of `cur` (as repaired) -/
def visit (cur : Nat) (st : St) (w : Nat) : St :=
  if st.pr w then st else
  let q := if st.d w = MAX then st.queue ++ [w] else st.queue
  let newLen := st.d cur + 1
  if newLen ≤ st.d w ∧ ¬ (st.ps w).contains cur then
    ⟨st.dist.set w newLen, st.preds.modify w (· ++ [cur]), st.processed, q⟩
  else ⟨st.dist, st.preds, st.processed, q⟩

def expand (adj : Adj) (cur : Nat) (st : St) : St := (Bfs.nbrs adj cur).foldl (visit cur) st

/-- `processedVertices[cur] = true; queue.pop()` -/
def finish (cur : Nat) (st : St) : St := ⟨st.dist, st.preds, st.processed.set cur true, st.queue.tail⟩

def loop (adj : Adj) : Nat → St → List Nat → St × List Nat
  | 0, st, log => (st, log)
  | fuel+1, st, log =>
    match st.queue with
    | [] => (st, log)
    | cur :: _ => loop adj fuel (finish cur (expand adj cur st)) (log ++ [cur])

def init (n s : Nat) : St :=
  ⟨(List.replicate n MAX).set s 0, List.replicate n [], (List.replicate n false).set s true, [s]⟩

end AllPred

structure AllPredOut where
  dist : List Nat
  preds : List (List Nat)
  scans : List Nat

def allPredRun (adj : Adj) (s : Nat) : AllPredOut :=
  let r := AllPred.loop adj (2 * adj.length + 1) (AllPred.init adj.length s) []
  ⟨r.1.dist, r.1.preds, r.2⟩

def findAllVertexPredecessors {L : Type} (g : G L) (s : Nat) : Res AllPredOut :=
  if !(decide (s < g.size)) then .threw .oor
  else if !adjWF g.adj then .ub
  else .ok (allPredRun g.adj s)

/-! ## path reconstruction -/

/-- the `while (!pathFound)` loop of `findPathToVertexFromPredecessors`; `none` = fuel exhausted -/
def pathLoop (pred : List Nat) (source : Nat) : Nat → Nat → List Nat → Option (Res (List Nat))
  | 0, _, _ => none
  | fuel+1, cur, path =>
    if cur = MAX then some (.threw .rte)
    else
      match pred[cur]? with
      | none => some .ub                       -- unchecked `predecessors[currentVertex]`
      | some p =>
        if p = source then some (.ok (source :: cur :: path))
        else pathLoop pred source fuel p (cur :: path)

def findPathFromPredecessors (pred : List Nat) (source destination : Nat) : Res (List Nat) :=
  if source = destination then .ok [source]
  else match pathLoop pred source (pred.length + 2) destination [] with
    | some r => r
    | none => .ub

/-- two-stack machine of `findMultiplePathsToVertexFromPredecessors`; the stacks are one list of
(vertex, associated path) with the top at the head -/
def multiLoop (preds : List (List Nat)) (source destination : Nat) :
    Nat → List (Nat × List Nat) → List (List Nat) → Option (Res (List (List Nat)))
  | 0, _, _ => none
  | _+1, [], paths => some (.ok paths)
  | fuel+1, (cur, lst) :: stack, paths =>
    match preds[cur]? with
    | none => some .ub
    | some ps =>
      if ps.isEmpty ∧ cur ≠ source then some (.threw .rte)
      else
        let lst' := cur :: lst
        let stack' := (ps.map (fun p => (p, lst'))).reverse ++ stack
        let paths' := if cur = source then paths ++ [lst' ++ [destination]] else paths
        multiLoop preds source destination fuel stack' paths'

/-- step budget of the all-paths machine: more than the machine can ever need on `n` vertices
(`MultiPath.fuel_enough`), so the budget never binds — the C++ loop has none -/
def multiFuel (n : Nat) : Nat := (n + 2) ^ (n + 2)

def findMultiplePathsFromPredecessors (preds : List (List Nat)) (source destination : Nat) :
    Res (List (List Nat)) :=
  if source = destination then .ok [[source]]
  else match preds[destination]? with
    | none => .ub
    | some ps =>
      match multiLoop preds source destination (multiFuel preds.length) ((ps.map (fun p => (p, ([] : List Nat)))).reverse) [] with
      | some r => r
      | none => .ub

/-! ## the `findGeodesics*` wrappers -/

def findGeodesics {L : Type} (g : G L) (s t : Nat) : Res (List Nat) :=
  if !(decide (s < g.size) && decide (t < g.size)) then .threw .oor
  else if s = t then .ok [s]
  else (findVertexPredecessors g s).bind (fun r =>
    if r.dist.getD t MAX ≠ MAX then findPathFromPredecessors r.pred s t else .ok [])

def findAllGeodesics {L : Type} (g : G L) (s t : Nat) : Res (List (List Nat)) :=
  if !(decide (s < g.size) && decide (t < g.size)) then .threw .oor
  else if s = t then .ok [[s]]
  else (findAllVertexPredecessors g s).bind (fun r =>
    if r.dist.getD t MAX ≠ MAX then findMultiplePathsFromPredecessors r.preds s t else .ok [])

def seqRes {α : Type} : List (Res α) → Res (List α)
  | [] => .ok []
  | r :: rs => r.bind (fun a => (seqRes rs).map (fun as => a :: as))

def findGeodesicsFromVertex {L : Type} (g : G L) (s : Nat) : Res (List (List Nat)) :=
  (findVertexPredecessors g s).bind (fun r =>
    seqRes ((List.range g.size).map (fun j =>
      if r.dist.getD j MAX ≠ MAX then findPathFromPredecessors r.pred s j else .ok [])))

def findAllGeodesicsFromVertex {L : Type} (g : G L) (s : Nat) : Res (List (List (List Nat))) :=
  (findAllVertexPredecessors g s).bind (fun r =>
    seqRes ((List.range g.size).map (fun j =>
      if r.dist.getD j MAX ≠ MAX then findMultiplePathsFromPredecessors r.preds s j else .ok [])))

/-! ## findGeodesicsDijkstra -/
namespace DijRun
open Dij

/-- `x` is a legal result of `front()` on the heap: in the worklist with least current distance -/
def legal (st : DS) (x : Nat) : Bool :=
  st.work.contains x &&
  match st.d x with
  | none => st.work.all (fun y => (st.d y).isNone)
  | some dx => st.work.all (fun y => match st.d y with | none => true | some dy => decide (dx ≤ dy))

/-- replay the observed pop sequence.  A pop must at least be a member of the worklist (`none`
otherwise, or when the worklist is not empty at the end); the Boolean records whether every pop
was also a *minimal* element, as a correct heap guarantees (needed for the scan bound of C19,
not for the correctness of the distances, C12). -/
def run (wt : Nat → Nat → Nat) (adj : Adj) : List Nat → DS → Bool → Option (DS × Bool)
  | [], st, allMin => if st.work.isEmpty then some (st, allMin) else none
  | x :: xs, st, allMin =>
    if st.work.contains x then
      run wt adj xs (expand wt adj x ⟨st.dist, st.pred, st.work.erase x⟩) (allMin && legal st x)
    else none

def init (n s : Nat) : DS := ⟨(List.replicate n none).set s (some 0), (List.replicate n MAX).set s s, [s]⟩

end DijRun

structure DijOut where
  dist : List (Option Nat)
  pred : List Nat
  allMin : Bool

/-- weights as the algorithm sees them: `getEdgeWeight(u, v)` of the (un)directed weighted graph -/
def wgWeight (und : Bool) (w : WG) (u v : Nat) : Nat :=
  (WG.cur w.g (if und then G.ordered u v else (u, v))).toNat

def wgNonNeg (w : WG) : Bool := w.g.labels.all (fun p => decide (0 ≤ p.2))

/-- `findGeodesicsDijkstra(graph, source)` replaying the pop order `pops` -/
def findGeodesicsDijkstra (und : Bool) (w : WG) (s : Nat) (pops : List Nat) : Res (Option DijOut) :=
  if !(decide (s < w.g.size)) then .threw .oor
  else if !adjWF w.g.adj then .ub
  else .ok ((DijRun.run (wgWeight und w) w.g.adj pops (DijRun.init w.g.size s) true).map
    (fun r => ⟨r.1.dist, r.1.pred, r.2⟩))

end BGV
