import BGV.Model.Graph
/-!
# BGV.Model.Weighted — `DirectedWeightedGraph` and `UndirectedWeightedGraph`

A weighted graph is a `Labeled(Un)DirectedGraph<double>` plus the running `totalWeight`.
Weights are modelled as `Int` in units of 1/4: the exact-arithmetic reading of the
properties (DESIGN §3, C05).  Floating-point rounding is not modelled.
-/
namespace BGV

structure WG where
  g : G Int
  total : Int

namespace WG
open G

def new (n : Nat) : WG := ⟨G.new true n, 0⟩

def resize (m : WG) (n : Nat) : WG × Res Unit :=
  match m.g.resize n with
  | (g', r) => (⟨g', m.total⟩, r)

/-- `edgeLabels[e]` as an lvalue: default-inserts 0 -/
def cur (g : G Int) (e : Edge) : Int := (g.labels.get? e).getD 0

/-! ## DirectedWeightedGraph -/

/-- `addEdge(i,j,w,force)` (with the range checks of the repaired code) -/
def dAddEdge (m : WG) (i j : Nat) (w : Int) (force : Bool) : WG × Res Unit :=
  if !(m.g.inR i && m.g.inR j) then (m, .threw .oor)
  else if force || !m.g.hasEdgeRaw i j then
    (⟨(m.g.dAddEdge i j w true).1, m.total + w⟩, .ok ())
  else (m, .ok ())

/-- `addReciprocalEdge(i,j,force)`: the code passes `force` in the *weight* position, so
both edges get weight `force ? 1 : 0` (4 or 0 quarter-units) and are added unforced. -/
def dAddReciprocalEdge (m : WG) (i j : Nat) (force : Bool) : WG × Res Unit :=
  let w : Int := if force then 4 else 0
  match m.dAddEdge i j w false with
  | (m1, .ok _) => m1.dAddEdge j i w false
  | r => r

def dRemoveEdgeCore (m : WG) (i j : Nat) : WG :=
  let g1 := m.g.remove i j
  let k := (m.g.nb i).length - (g1.nb i).length
  ⟨(g1.withEN (subW m.g.edgeNumber k)).withLabels (m.g.labels.erase (i, j)),
   m.total - m.g.labD (i, j) * (k : Int)⟩

def dRemoveEdge (m : WG) (i j : Nat) : WG × Res Unit :=
  if !(m.g.inR i && m.g.inR j) then (m, .threw .oor) else (m.dRemoveEdgeCore i j, .ok ())

def dGetEdgeWeight (m : WG) (i j : Nat) (throwIf : Bool) : Res Int := m.g.dGetEdgeLabel i j throwIf

def dSetEdgeWeight (m : WG) (i j : Nat) (w : Int) : WG × Res Unit :=
  if !(m.g.inR i && m.g.inR j) then (m, .threw .oor)
  else if m.g.hasEdgeRaw i j then
    (⟨m.g.withLabels (m.g.labels.insert (i, j) w), m.total + (w - cur m.g (i, j))⟩, .ok ())
  else m.dAddEdge i j w false

def dRemoveDuplicateEdges (m : WG) : WG :=
  (List.range m.g.size).foldl (fun m i =>
      let gone := dedupR [] (m.g.nb i)
      ⟨(m.g.withAdj (m.g.adj.modify i (dedupK []))).withEN (subW m.g.edgeNumber gone.length),
       gone.foldl (fun t j => t - m.g.labD (i, j)) m.total⟩) m

def dRemoveSelfLoops (m : WG) : WG :=
  (List.range m.g.size).foldl (fun m i => m.dRemoveEdgeCore i i) m

def clearEdges (m : WG) : WG := ⟨m.g.clearEdges, 0⟩

def dropOut (v : Nat) : List Nat → AMap Int × Int → AMap Int × Int
  | [], s => s
  | j :: js, (lab, t) => dropOut v js (lab.erase (v, j), t - (lab.get? (v, j)).getD 0)

def dRemoveVertex (m : WG) (v : Nat) : WG × Res Unit :=
  if !m.g.inR v then (m, .threw .oor) else
  let (lab, t) := dropOut v (m.g.nb v) (m.g.labels, m.total)
  let m1 : WG := ⟨⟨true, m.g.size, m.g.adj.modify v (fun _ => []), subW m.g.edgeNumber (m.g.nb v).length, lab⟩, t⟩
  ((List.range m.g.size).foldl (fun m i => m.dRemoveEdgeCore i v) m1, .ok ())

def setCell (mat : List (List Int)) (i j : Nat) (w : Int) : List (List Int) :=
  mat.modify i (fun r => r.set j w)

/-- `getWeightMatrix()`: `m[i][j] = getEdgeWeight(i,j)` (throwing mode) for every list entry -/
def dGetWeightMatrix (m : WG) : Res (List (List Int)) :=
  (List.range m.g.size).foldl (fun r i =>
      (m.g.nb i).foldl (fun r j => r.bind (fun mat =>
        (m.g.dGetEdgeLabel i j true).map (fun w => setCell mat i j w))) r)
    (.ok (List.replicate m.g.size (List.replicate m.g.size 0)))

def dOfEdgeList (es : List (Nat × Nat × Int)) : Res WG :=
  es.foldl (fun r e => r.bind (fun m =>
      let mx := max e.1 e.2.1
      let m1 := if mx ≥ m.g.size then (m.resize (mx + 1)).1 else m
      match m1.dAddEdge e.1 e.2.1 e.2.2 false with
      | (m2, .ok _) => .ok m2
      | (_, .threw x) => .threw x
      | (_, .ub) => .ub))
    (.ok (WG.new 0))

/-! ## UndirectedWeightedGraph -/

def uAddEdge (m : WG) (i j : Nat) (w : Int) (force : Bool) : WG × Res Unit :=
  if !(m.g.inR i && m.g.inR j) then (m, .threw .oor)
  else if force || !m.g.uHasEdgeRaw i j then
    (⟨(m.g.uAddEdge i j w true).1, m.total + w⟩, .ok ())
  else (m, .ok ())

def uRemoveEdgeCore (m : WG) (i j : Nat) : WG :=
  let g1 := m.g.remove i j
  let k := (m.g.nb i).length - (g1.nb i).length
  if k > 0 then
    ⟨((g1.remove j i).withEN (subW m.g.edgeNumber k)).withLabels (m.g.labels.erase (ordered i j)),
     m.total - m.g.labD (ordered i j) * (k : Int)⟩
  else ⟨g1, m.total⟩

def uRemoveEdge (m : WG) (i j : Nat) : WG × Res Unit :=
  if !(m.g.inR i && m.g.inR j) then (m, .threw .oor) else (m.uRemoveEdgeCore i j, .ok ())

def uGetEdgeWeight (m : WG) (i j : Nat) (throwIf : Bool) : Res Int := m.g.uGetEdgeLabel i j throwIf

/-- `setEdgeWeight` (as repaired: the map is addressed by the ordered pair) -/
def uSetEdgeWeight (m : WG) (i j : Nat) (w : Int) : WG × Res Unit :=
  if !(m.g.inR i && m.g.inR j) then (m, .threw .oor)
  else if m.g.uHasEdgeRaw i j then
    (⟨m.g.withLabels (m.g.labels.insert (ordered i j) w), m.total + (w - cur m.g (ordered i j))⟩, .ok ())
  else m.uAddEdge i j w false

def uRemoveSelfLoops (m : WG) : WG :=
  (List.range m.g.size).foldl (fun m i => m.uRemoveEdgeCore i i) m

def uRemoveDuplicateEdges (m : WG) : WG :=
  (List.range m.g.size).foldl (fun m i =>
      let gone := (dedupR [] (m.g.nb i)).filter (fun j => decide (i ≤ j))
      ⟨(m.g.withAdj (m.g.adj.modify i (dedupK []))).withEN (subW m.g.edgeNumber gone.length),
       gone.foldl (fun t j => t - m.g.labD (ordered i j)) m.total⟩) m

def dropCnt (i : Nat) : List Nat → AMap Int × Int → AMap Int × Int
  | [], s => s
  | j :: js, (lab, t) => dropCnt i js (lab.erase (i, j), t - (lab.get? (ordered i j)).getD 0)

def uRemoveVertex (m : WG) (v : Nat) : WG × Res Unit :=
  if !m.g.inR v then (m, .threw .oor) else
  ((List.range m.g.size).foldl (fun m i =>
      let gone := (m.g.nb i).filter (fun j => i == v || j == v)
      let cnt := gone.filter (fun j => decide (i ≤ j))
      let (lab, t) := dropCnt i cnt (m.g.labels, m.total)
      ⟨⟨true, m.g.size, m.g.adj.modify i (List.filter (fun j => !(i == v || j == v))),
        subW m.g.edgeNumber cnt.length, lab⟩, t⟩) m, .ok ())

def uGetWeightMatrix (m : WG) : Res (List (List Int)) :=
  (List.range m.g.size).foldl (fun r i =>
      (m.g.nb i).foldl (fun r j => r.bind (fun mat =>
        (m.g.uGetEdgeLabel i j true).map (fun w => setCell mat i j w))) r)
    (.ok (List.replicate m.g.size (List.replicate m.g.size 0)))

def uOfEdgeList (es : List (Nat × Nat × Int)) : Res WG :=
  es.foldl (fun r e => r.bind (fun m =>
      let mx := max e.1 e.2.1
      let m1 := if mx ≥ m.g.size then (m.resize (mx + 1)).1 else m
      match m1.uAddEdge e.1 e.2.1 e.2.2 false with
      | (m2, .ok _) => .ok m2
      | (_, .threw x) => .threw x
      | (_, .ub) => .ub))
    (.ok (WG.new 0))

end WG
end BGV
