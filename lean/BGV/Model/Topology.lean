import BGV.Model.Graph
/-!
# BGV.Model.Topology — `getSubgraph` / `getSubgraphWithRemap` (algorithms/topology.hpp)

The `unordered_set` argument is a duplicate-free list in *some* iteration order `ord`;
the theorems quantify over every order, the correspondence passes the observed one.
`und = true` selects the `LabeledUndirectedGraph` instantiation of the template.
-/
namespace BGV
namespace G
variable {L : Type} [Inhabited L]

def addEdgeOf (und : Bool) (h : G L) (i j : Nat) (l : L) : G L × Res Unit :=
  if und then h.uAddEdge i j l false else h.dAddEdge i j l false

def getEdgeLabelOf (und : Bool) (g : G L) (i j : Nat) : Res L :=
  if und then g.uGetEdgeLabel i j true else g.dGetEdgeLabel i j true

/-- inner loop body: neighbour `j` of `i` -/
def subInnerStep (und : Bool) (g : G L) (S : List Nat) (f : Nat → Nat) (i : Nat) (r : Res (G L)) (j : Nat) : Res (G L) :=
  if S.contains j then
    match getEdgeLabelOf und g i j with
    | .ok l => chain r (fun h => addEdgeOf und h (f i) (f j) l)
    | .threw x => r.bind (fun _ => .threw x)
    | .ub => .ub
  else r

/-- outer loop body: vertex `i` of the set -/
def subOuterStep (und : Bool) (g : G L) (S : List Nat) (f : Nat → Nat) (r : Res (G L)) (i : Nat) : Res (G L) :=
  r.bind (fun h =>
    if !g.inR i then .threw .oor
    else (g.nb i).foldl (subInnerStep und g S f i) (.ok h))

/-- shared loop: for i in ord { assert i; for j in nb i, j ∈ S: sub.addEdge(f i, f j, label) } -/
def subLoop (und : Bool) (g : G L) (ord : List Nat) (f : Nat → Nat) (init : G L) : Res (G L) :=
  ord.foldl (subOuterStep und g ord f) (.ok init)

def getSubgraph (und : Bool) (g : G L) (ord : List Nat) : Res (G L) :=
  subLoop und g ord id (G.new g.labelled g.size)

/-- position of `v` in the iteration order (the value `newMapping[v]`) -/
def remapOf (ord : List Nat) (v : Nat) : Nat := ord.idxOf v

def getSubgraphWithRemap (und : Bool) (g : G L) (ord : List Nat) : Res (G L × List (Nat × Nat)) :=
  (subLoop und g ord (remapOf ord) (G.new g.labelled ord.length)).map
    (fun h => (h, ord.zipIdx))

end G
end BGV
