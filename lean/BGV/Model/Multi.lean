import BGV.Model.Graph
/-!
# BGV.Model.Multi — `DirectedMultigraph` and `UndirectedMultigraph`

A multigraph is a `LabeledDirectedGraph<EdgeMultiplicity>` (resp. undirected) plus the
running counter `totalEdgeNumber`.  `EdgeMultiplicity` (32-bit) is modelled as `Nat`
under the side condition that no multiplicity reaches 2^32 (DESIGN §3).
-/
namespace BGV

structure MG where
  g : G Nat
  total : Nat

namespace MG
open G

def new (n : Nat) : MG := ⟨G.new true n, 0⟩

def resize (m : MG) (n : Nat) : MG × Res Unit :=
  match m.g.resize n with
  | (g', r) => (⟨g', m.total⟩, r)

/-- `edgeLabels[e]` as an lvalue: default-inserts 0 -/
def cur (g : G Nat) (e : Edge) : Nat := (g.labels.get? e).getD 0

/-! ## DirectedMultigraph -/

def dAddMultiedge (m : MG) (i j k : Nat) (force : Bool) : MG × Res Unit :=
  if !(m.g.inR i && m.g.inR j) then (m, .threw .oor)
  else if k = 0 then (m, .ok ())
  else if force || !m.g.hasEdgeRaw i j then
    (⟨(m.g.dAddEdge i j k true).1, m.total + k⟩, .ok ())
  else
    (⟨m.g.withLabels (m.g.labels.insert (i, j) (cur m.g (i, j) + k)), m.total + k⟩, .ok ())

def dAddReciprocalMultiedge (m : MG) (i j k : Nat) (force : Bool) : MG × Res Unit :=
  match m.dAddMultiedge i j k force with
  | (m1, .ok _) => m1.dAddMultiedge j i k force
  | r => r

/-- `removeMultiedge`: acts on the first occurrence of `j` in `i`'s list -/
def dRemoveMultiedge (m : MG) (i j k : Nat) : MG × Res Unit :=
  if !(m.g.inR i && m.g.inR j) then (m, .threw .oor)
  else if !m.g.hasEdgeRaw i j then (m, .ok ())
  else
    let c := cur m.g (i, j)
    if c > k then
      (⟨m.g.withLabels (m.g.labels.insert (i, j) (c - k)), subW m.total k⟩, .ok ())
    else
      (⟨⟨true, m.g.size, m.g.adj.modify i (fun l => l.erase j), subW m.g.edgeNumber 1,
          m.g.labels.erase (i, j)⟩, subW m.total c⟩, .ok ())

/-- private `removeAllEdges` after its range checks -/
def dRemoveAllCore (m : MG) (i j : Nat) : MG :=
  let g1 := m.g.remove i j
  let k := (m.g.nb i).length - (g1.nb i).length
  ⟨(g1.withEN (subW m.g.edgeNumber k)).withLabels (m.g.labels.erase (i, j)),
   subW m.total (m.g.labD (i, j) * k)⟩

def dGetEdgeMultiplicity (m : MG) (i j : Nat) : Res Nat :=
  if !(m.g.inR i && m.g.inR j) then .threw .oor
  else .ok (cur m.g (i, j))

def dSetEdgeMultiplicity (m : MG) (i j k : Nat) : MG × Res Unit :=
  if !(m.g.inR i && m.g.inR j) then (m, .threw .oor)
  else if k = 0 then (m.dRemoveAllCore i j, .ok ())
  else if m.g.hasEdgeRaw i j then
    (⟨m.g.withLabels (m.g.labels.insert (i, j) k), subW (m.total + k) (cur m.g (i, j))⟩, .ok ())
  else m.dAddMultiedge i j k true

def dRemoveDuplicateEdges (m : MG) : MG :=
  (List.range m.g.size).foldl (fun m i =>
      let gone := dedupR [] (m.g.nb i)
      ⟨(m.g.withAdj (m.g.adj.modify i (dedupK []))).withEN (subW m.g.edgeNumber gone.length),
       gone.foldl (fun t j => subW t (m.g.labD (i, j))) m.total⟩) m

def dRemoveSelfLoops (m : MG) : MG :=
  (List.range m.g.size).foldl (fun m i => m.dRemoveAllCore i i) m

/-- first loop of `removeVertexFromEdgeList`: per successor, subtract its multiplicity,
(as repaired) erase its label, erase the list node, decrement the counter -/
def dropOut (g : G Nat) (v : Nat) (total : Nat) : List Nat → AMap Nat × Nat → AMap Nat × Nat
  | [], s => s
  | j :: js, (lab, t) =>
    let c := if g.labelled then (lab.get? (v, j)).getD 0 else 0
    dropOut g v total js (lab.erase (v, j), subW t c)

def dRemoveVertex (m : MG) (v : Nat) : MG × Res Unit :=
  if !m.g.inR v then (m, .threw .oor) else
  let (lab, t) := dropOut m.g v m.total (m.g.nb v) (m.g.labels, m.total)
  let m1 : MG := ⟨⟨true, m.g.size, m.g.adj.modify v (fun _ => []), subW m.g.edgeNumber (m.g.nb v).length, lab⟩, t⟩
  ((List.range m.g.size).foldl (fun m i => m.dRemoveAllCore i v) m1, .ok ())

def clearEdges (m : MG) : MG := ⟨m.g.clearEdges, 0⟩

def dGetAdjacencyMatrix (m : MG) : Res (List (List Nat)) :=
  if m.g.allInR then
    .ok ((List.range m.g.size).foldl (fun mat i =>
      (m.g.nb i).foldl (fun mat j => bump2 mat i j (cur m.g (i, j))) mat) (zeroMatrix m.g.size))
  else .ub

def dGetOutDegree (m : MG) (v : Nat) : Res Nat :=
  if !m.g.inR v then .threw .oor
  else if !m.g.allInR then .threw .oor
  else .ok (((m.g.nb v).map (fun j => cur m.g (v, j))).sum)

def dGetOutDegrees (m : MG) : Res (List Nat) :=
  if m.g.allInR then
    .ok (m.g.dEdges.foldl (fun acc e => bump acc e.1 (cur m.g e)) (List.replicate m.g.size 0))
  else .threw .oor

/-- `getInDegree`: sums `getEdgeLabel` (throwing mode) over `edges()` -/
def dGetInDegree (m : MG) (v : Nat) : Res Nat :=
  if !m.g.inR v then .threw .oor
  else (m.g.dEdges.filter (fun e => e.2 == v)).foldl (fun r e =>
      r.bind (fun acc => (m.g.dGetEdgeLabel e.1 e.2 true).map (fun c => acc + c))) (.ok 0)

def dGetInDegrees (m : MG) : Res (List Nat) :=
  if !m.g.allInR then .ub else
  m.g.dEdges.foldl (fun r e =>
      r.bind (fun acc => (m.g.dGetEdgeLabel e.1 e.2 true).map (fun c => bump acc e.2 c)))
    (.ok (List.replicate m.g.size 0))

def dOfEdgeList (es : List (Nat × Nat × Nat)) : Res MG :=
  es.foldl (fun r e => r.bind (fun m =>
      let mx := max e.1 e.2.1
      let m1 := if mx ≥ m.g.size then (m.resize (mx + 1)).1 else m
      match m1.dAddMultiedge e.1 e.2.1 e.2.2 false with
      | (m2, .ok _) => .ok m2
      | (_, .threw x) => .threw x
      | (_, .ub) => .ub))
    (.ok (MG.new 0))

/-! ## UndirectedMultigraph -/

def uAddMultiedge (m : MG) (i j k : Nat) (force : Bool) : MG × Res Unit :=
  if !(m.g.inR i && m.g.inR j) then (m, .threw .oor)
  else if k = 0 then (m, .ok ())
  else if force || !m.g.uHasEdgeRaw i j then
    (⟨(m.g.uAddEdge i j k true).1, m.total + k⟩, .ok ())
  else
    (⟨m.g.withLabels (m.g.labels.insert (ordered i j) (cur m.g (ordered i j) + k)), m.total + k⟩, .ok ())

def uRemoveMultiedge (m : MG) (i j k : Nat) : MG × Res Unit :=
  if !(m.g.inR i && m.g.inR j) then (m, .threw .oor)
  else if !m.g.hasEdgeRaw i j then (m, .ok ())
  else
    let c := cur m.g (ordered i j)
    if c > k then
      (⟨m.g.withLabels (m.g.labels.insert (ordered i j) (c - k)), subW m.total k⟩, .ok ())
    else
      let a1 := m.g.adj.modify i (fun l => l.erase j)
      let a2 := if i ≠ j then a1.modify j (List.filter (· != i)) else a1
      (⟨⟨true, m.g.size, a2, subW m.g.edgeNumber 1, m.g.labels.erase (ordered i j)⟩, subW m.total c⟩, .ok ())

def uRemoveAllCore (m : MG) (i j : Nat) : MG :=
  let g1 := m.g.remove i j
  let k := (m.g.nb i).length - (g1.nb i).length
  if k > 0 then
    ⟨((g1.remove j i).withEN (subW m.g.edgeNumber k)).withLabels (m.g.labels.erase (ordered i j)),
     subW m.total (m.g.labD (ordered i j) * k)⟩
  else ⟨g1, m.total⟩

def uGetEdgeMultiplicity (m : MG) (i j : Nat) : Res Nat :=
  if !(m.g.inR i && m.g.inR j) then .threw .oor
  else .ok (cur m.g (ordered i j))

/-- `setEdgeMultiplicity` (as repaired: 0 removes the whole multiedge) -/
def uSetEdgeMultiplicity (m : MG) (i j k : Nat) : MG × Res Unit :=
  if !(m.g.inR i && m.g.inR j) then (m, .threw .oor)
  else if k = 0 then (m.uRemoveAllCore i j, .ok ())
  else if m.g.uHasEdgeRaw i j then
    (⟨m.g.withLabels (m.g.labels.insert (ordered i j) k), subW (m.total + k) (cur m.g (ordered i j))⟩, .ok ())
  else m.uAddMultiedge i j k true

def uRemoveDuplicateEdges (m : MG) : MG :=
  (List.range m.g.size).foldl (fun m i =>
      let gone := (dedupR [] (m.g.nb i)).filter (fun j => decide (i ≤ j))
      ⟨(m.g.withAdj (m.g.adj.modify i (dedupK []))).withEN (subW m.g.edgeNumber gone.length),
       gone.foldl (fun t j => subW t (m.g.labD (ordered i j))) m.total⟩) m

def uRemoveSelfLoops (m : MG) : MG :=
  (List.range m.g.size).foldl (fun m i => m.uRemoveAllCore i i) m

/-- per counted entry: subtract multiplicity, decrement, (as repaired) erase the label -/
def dropCnt (i : Nat) : List Nat → AMap Nat × Nat → AMap Nat × Nat
  | [], s => s
  | j :: js, (lab, t) => dropCnt i js (lab.erase (i, j), subW t ((lab.get? (ordered i j)).getD 0))

def uRemoveVertex (m : MG) (v : Nat) : MG × Res Unit :=
  if !m.g.inR v then (m, .threw .oor) else
  ((List.range m.g.size).foldl (fun m i =>
      let gone := (m.g.nb i).filter (fun j => i == v || j == v)
      let cnt := gone.filter (fun j => decide (i ≤ j))
      let (lab, t) := dropCnt i cnt (m.g.labels, m.total)
      ⟨⟨true, m.g.size, m.g.adj.modify i (List.filter (fun j => !(i == v || j == v))),
        subW m.g.edgeNumber cnt.length, lab⟩, t⟩) m, .ok ())

/-- `getAdjacencyMatrix(countSelfLoopsTwice)`: uses the throwing `getEdgeLabel` -/
def uGetAdjacencyMatrix (m : MG) (twice : Bool) : Res (List (List Nat)) :=
  if !m.g.allInR then .threw .oor else
  (List.range m.g.size).foldl (fun r i =>
      (m.g.nb i).foldl (fun r j => r.bind (fun mat =>
        (m.g.uGetEdgeLabel i j true).map (fun c => bump2 mat i j (if i == j && twice then 2 * c else c)))) r)
    (.ok (zeroMatrix m.g.size))

def uGetDegree (m : MG) (v : Nat) (twice : Bool) : Res Nat :=
  if !m.g.inR v then .threw .oor
  else if !m.g.allInR then .threw .oor
  else .ok (((m.g.nb v).map (fun j =>
      let c := cur m.g (ordered v j)
      if twice && v == j then 2 * c else c)).sum)

def uGetDegrees (m : MG) (twice : Bool) : Res (List Nat) :=
  if !m.g.allInR then .threw .oor
  else .ok ((List.range m.g.size).map (fun v => ((m.g.nb v).map (fun j =>
      let c := cur m.g (ordered v j)
      if twice && v == j then 2 * c else c)).sum))

def uOfEdgeList (es : List (Nat × Nat × Nat)) : Res MG :=
  es.foldl (fun r e => r.bind (fun m =>
      let mx := max e.1 e.2.1
      let m1 := if mx ≥ m.g.size then (m.resize (mx + 1)).1 else m
      match m1.uAddMultiedge e.1 e.2.1 e.2.2 false with
      | (m2, .ok _) => .ok m2
      | (_, .threw x) => .threw x
      | (_, .ub) => .ub))
    (.ok (MG.new 0))

end MG
end BGV
