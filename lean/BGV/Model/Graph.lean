import BGV.Model.Basic
/-!
# BGV.Model.Graph — `LabeledDirectedGraph<L>` and `LabeledUndirectedGraph<L>`

State = the four data members of `LabeledDirectedGraph` (`adjacencyList`, `size`,
`edgeNumber`, `edgeLabels`) plus the compile-time fact "EdgeLabel is NoLabel"
(`labelled = false`).  Each public member function of include/BaseGraph/directed_graph.hpp
and undirected_graph.hpp is one definition below, statement by statement:
neighbour lists keep their order, the counter is updated incrementally, the label
store is a separate map.  Mutators return the state they leave behind and an outcome.
-/
namespace BGV

structure G (L : Type) where
  labelled : Bool
  size : Nat
  adj : List (List Nat)
  edgeNumber : Nat
  labels : AMap L

namespace G
variable {L : Type} [Inhabited L]

/-- `LabeledDirectedGraph(size)`. -/
def new (labelled : Bool) (n : Nat) : G L := ⟨labelled, n, List.replicate n [], 0, []⟩

/-- `adjacencyList[i]` -/
def nb (g : G L) (i : Nat) : List Nat := g.adj.getD i []

/-- `assertVertexInRange` succeeds -/
def inR (g : G L) (i : Nat) : Bool := decide (i < g.size)

/-- `find(adjacencyList[i]…, j) != end` -/
def hasEdgeRaw (g : G L) (i j : Nat) : Bool := (g.nb i).contains j

/-- `_setLabel` (a no-op for NoLabel) -/
def setLab (g : G L) (e : Edge) (l : L) : G L :=
  if g.labelled then ⟨true, g.size, g.adj, g.edgeNumber, g.labels.insert e l⟩ else g

/-- `_getLabel` after its two range checks -/
def getLab (g : G L) (e : Edge) (throwIf : Bool) : Res L :=
  if g.labelled then
    match g.labels.get? e with
    | some l => .ok l
    | none => if throwIf then .threw .inv else .ok default
  else .ok default

/-- value of `getEdgeLabel(i,j,false)` after the range checks -/
def labD (g : G L) (e : Edge) : L :=
  if g.labelled then (g.labels.get? e).getD default else default

def withAdj (g : G L) (a : List (List Nat)) : G L := ⟨g.labelled, g.size, a, g.edgeNumber, g.labels⟩
def withEN (g : G L) (n : Nat) : G L := ⟨g.labelled, g.size, g.adj, n, g.labels⟩
def withLabels (g : G L) (m : AMap L) : G L := ⟨g.labelled, g.size, g.adj, g.edgeNumber, m⟩

/-- `adjacencyList[i].push_back(j)` -/
def push (g : G L) (i j : Nat) : G L := g.withAdj (g.adj.modify i (· ++ [j]))
/-- `adjacencyList[i].remove(j)` -/
def remove (g : G L) (i j : Nat) : G L := g.withAdj (g.adj.modify i (List.filter (· != j)))

/-- `resize` -/
def resize (g : G L) (n : Nat) : G L × Res Unit :=
  if n < g.size then (g, .threw .inv)
  else (⟨g.labelled, n, g.adj ++ List.replicate (n - g.adj.length) [], g.edgeNumber, g.labels⟩, .ok ())

/-! ## duplicate removal helper: first occurrences are kept -/

/-- elements kept by the `seenVertices` loop -/
def dedupK (seen : List Nat) : List Nat → List Nat
  | [] => []
  | x :: xs => if seen.contains x then dedupK seen xs else x :: dedupK (x :: seen) xs
/-- elements erased by the `seenVertices` loop, in order -/
def dedupR (seen : List Nat) : List Nat → List Nat
  | [] => []
  | x :: xs => if seen.contains x then x :: dedupR seen xs else dedupR (x :: seen) xs

/-! ## LabeledDirectedGraph -/

/-- `hasEdge(i,j)` -/
def dHasEdge (g : G L) (i j : Nat) : Res Bool :=
  if g.inR i && g.inR j then .ok (g.hasEdgeRaw i j) else .threw .oor

/-- `addEdge(i,j,label,force)` (with the range checks of the repaired code) -/
def dAddEdge (g : G L) (i j : Nat) (l : L) (force : Bool) : G L × Res Unit :=
  if !(g.inR i && g.inR j) then (g, .threw .oor)
  else if force || !g.hasEdgeRaw i j then
    ((((g.push i j).withEN (g.edgeNumber + 1)).setLab (i, j) l), .ok ())
  else (g, .ok ())

/-- `addReciprocalEdge` -/
def dAddReciprocalEdge (g : G L) (i j : Nat) (l : L) (force : Bool) : G L × Res Unit :=
  match g.dAddEdge i j l force with
  | (g1, .ok _) => g1.dAddEdge j i l force
  | r => r

/-- `getOutNeighbours(i)` -/
def getOutNeighbours (g : G L) (i : Nat) : Res (List Nat) :=
  if g.inR i then .ok (g.nb i) else .threw .oor

/-- `getEdgeLabel(i,j,throwIfInexistent)` -/
def dGetEdgeLabel (g : G L) (i j : Nat) (throwIf : Bool) : Res L :=
  if g.inR i && g.inR j then g.getLab (i, j) throwIf else .threw .oor

/-- `hasEdge(i,j,label)` -/
def dHasEdgeL [DecidableEq L] (g : G L) (i j : Nat) (l : L) : Res Bool :=
  match g.dHasEdge i j with
  | .ok true => (g.dGetEdgeLabel i j false).map (fun x => decide (x = l))
  | r => r

/-- `setEdgeLabel(i,j,label,force)` -/
def dSetEdgeLabel (g : G L) (i j : Nat) (l : L) (force : Bool) : G L × Res Unit :=
  if !(g.inR i && g.inR j) then (g, .threw .oor)
  else if !force && !g.hasEdgeRaw i j then (g, .threw .inv)
  else (g.setLab (i, j) l, .ok ())

/-- body of `removeEdge` after the range checks -/
def dRemoveEdgeCore (g : G L) (i j : Nat) : G L :=
  let g1 := g.remove i j
  (g1.withEN (subW g.edgeNumber ((g.nb i).length - (g1.nb i).length))).withLabels (g.labels.erase (i, j))

/-- `removeEdge(i,j)` -/
def dRemoveEdge (g : G L) (i j : Nat) : G L × Res Unit :=
  if !(g.inR i && g.inR j) then (g, .threw .oor) else (g.dRemoveEdgeCore i j, .ok ())

/-- `g.removeEdge(i, g.getOutNeighbours(i).front())` — the emptying idiom, whose second argument refers into
the list the call edits (a value here).  `false`: the list was empty and nothing was called. -/
def dRemoveFrontEdge (g : G L) (i : Nat) : G L × Res Bool :=
  match g.getOutNeighbours i with
  | .ok [] => (g, .ok false)
  | .ok (j :: _) =>
    match g.dRemoveEdge i j with
    | (g', .ok _) => (g', .ok true)
    | (g', .threw e) => (g', .threw e)
    | (g', .ub) => (g', .ub)
  | .threw e => (g, .threw e)
  | .ub => (g, .ub)

/-- `removeSelfLoops()` -/
def dRemoveSelfLoops (g : G L) : G L :=
  (List.range g.size).foldl (fun g i => g.dRemoveEdgeCore i i) g

/-- `removeDuplicateEdges()` -/
def dRemoveDuplicateEdges (g : G L) : G L :=
  (List.range g.size).foldl
    (fun g i => (g.withAdj (g.adj.modify i (dedupK []))).withEN (subW g.edgeNumber (dedupR [] (g.nb i)).length)) g

/-- `removeVertexFromEdgeList(v)`: first loop (erase `v`'s own list and, as repaired,
the labels of those edges), then `removeEdge(i, v)` for every `i`. -/
def dRemoveVertex (g : G L) (v : Nat) : G L × Res Unit :=
  if !g.inR v then (g, .threw .oor) else
  let g1 : G L := ⟨g.labelled, g.size, g.adj.modify v (fun _ => []),
                   subW g.edgeNumber (g.nb v).length,
                   (g.nb v).foldl (fun m j => AMap.erase m (v, j)) g.labels⟩
  ((List.range g.size).foldl (fun g i => g.dRemoveEdgeCore i v) g1, .ok ())

/-- `clearEdges()` (as repaired: the label store is emptied too) -/
def clearEdges (g : G L) : G L :=
  ⟨g.labelled, g.size, g.adj.map (fun _ => []), 0, []⟩

/-- `operator==` -/
def dEq [BEq L] (g h : G L) : Bool :=
  (g.size == h.size && g.edgeNumber == h.edgeNumber && AMap.beq g.labels h.labels) &&
  (List.range g.size).all (fun i =>
    (g.nb i).all (fun j => h.hasEdgeRaw i j) && (h.nb i).all (fun j => g.hasEdgeRaw i j))

/-! ## edge iterators (`Edges::constEdgeIterator`) — cursor = (vertex, position) -/

def endV (g : G L) : Nat := g.size - 1

/-- `while (neighbour == end(vertex) && vertex != endVertex) neighbour = begin(++vertex)` -/
def itNorm (g : G L) : Nat → Nat × Nat → Nat × Nat
  | 0, c => c
  | f+1, (v, p) => if p = (g.nb v).length ∧ v ≠ g.endV then itNorm g f (v+1, 0) else (v, p)

def itEnd (g : G L) : Nat × Nat := (g.endV, (g.nb g.endV).length)

/-- `edges().begin()`; as repaired, a graph with no vertex yields `end()`.
(The pinned code calls `getOutNeighbours(0)` and throws.) -/
def itBegin (g : G L) : Nat × Nat := if g.size = 0 then g.itEnd else g.itNorm g.size (0, 0)

/-- directed `operator++` -/
def dItNext (g : G L) (c : Nat × Nat) : Nat × Nat := g.itNorm g.size (c.1, c.2 + 1)

def itAtEnd (g : G L) (c : Nat × Nat) : Bool := c.2 == (g.nb c.1).length && c.1 == g.endV

/-- undirected `operator++`: `do { ++; skip-empty } while (!hasReachedEnd() && vertex > *neighbour)` -/
def uItNext (g : G L) : Nat → Nat × Nat → Nat × Nat
  | 0, c => c
  | f+1, c =>
    let c' := g.itNorm g.size (c.1, c.2 + 1)
    if !g.itAtEnd c' && decide (c'.1 > (g.nb c'.1).getD c'.2 0) then uItNext g f c' else c'

/-- `operator*`: dereferencing a past-the-end position is undefined. -/
def itDeref (g : G L) (c : Nat × Nat) : Res Edge :=
  match (g.nb c.1)[c.2]? with
  | some j => .ok (c.1, j)
  | none => .ub

def sumLen (g : G L) : Nat := (g.adj.map List.length).sum

/-- `for (auto e : edges())` as the cursor machine runs it -/
def itCollect (g : G L) (next : Nat × Nat → Nat × Nat) : Nat → Nat × Nat → List Edge
  | 0, _ => []
  | f+1, c => if c = g.itEnd then [] else (c.1, (g.nb c.1).getD c.2 0) :: itCollect g next f (next c)

def dEdges (g : G L) : List Edge := g.itCollect g.dItNext (g.sumLen + 1) g.itBegin
def uEdges (g : G L) : List Edge := g.itCollect (g.uItNext (g.sumLen + 1)) (g.sumLen + 1) g.itBegin

/-- `for (VertexIndex v : graph)`: the `VertexIterator` counter from `begin()` (0) until it equals
`end()` (`size`) -/
def vCollect (n : Nat) : Nat → Nat → List Nat
  | 0, _ => []
  | f+1, p => if p = n then [] else p :: vCollect n f (p + 1)
def vertices (g : G L) : List Nat := vCollect g.size (g.size + 1) 0

/-- closed form of the directed enumeration (theorem `dEdges_eq` in Props/C08) -/
def edgeSeq (g : G L) : List Edge := (List.range g.size).flatMap (fun i => (g.nb i).map (fun j => (i, j)))

/-! ## directed observers defined by enumeration -/

/-- every stored neighbour is a vertex: the unchecked `v[edge.second]` accesses are in bounds -/
def allInR (g : G L) : Bool := g.adj.all (fun l => l.all (fun j => decide (j < g.size)))

def dGetInDegree (g : G L) (v : Nat) : Res Nat :=
  if g.inR v then .ok ((g.dEdges.filter (fun e => e.2 == v)).length) else .threw .oor

def bump (l : List Nat) (i : Nat) (k : Nat) : List Nat := l.modify i (· + k)

def dGetInDegrees (g : G L) : Res (List Nat) :=
  if g.allInR then .ok (g.dEdges.foldl (fun acc e => bump acc e.2 1) (List.replicate g.size 0)) else .ub

def dGetOutDegree (g : G L) (v : Nat) : Res Nat :=
  if g.inR v then .ok (g.nb v).length else .threw .oor

def dGetOutDegrees (g : G L) : List Nat := (List.range g.size).map (fun i => (g.nb i).length)

def bump2 (m : List (List Nat)) (i j k : Nat) : List (List Nat) := m.modify i (fun r => bump r j k)
def zeroMatrix (n : Nat) : List (List Nat) := List.replicate n (List.replicate n 0)

def dGetAdjacencyMatrix (g : G L) : Res (List (List Nat)) :=
  if g.allInR then .ok (g.dEdges.foldl (fun m e => bump2 m e.1 e.2 1) (zeroMatrix g.size)) else .ub

/-- `getReversedGraph()`: unforced `addEdge(j,i,getEdgeLabel(i,j))` along `edges()` -/
def dReversed (g : G L) : Res (G L) :=
  g.dEdges.foldl (fun r e => r.bind (fun h =>
      match g.dGetEdgeLabel e.1 e.2 true with
      | .ok l => match h.dAddEdge e.2 e.1 l false with
                 | (h', .ok _) => .ok h'
                 | (_, .threw x) => .threw x
                 | (_, .ub) => .ub
      | .threw x => .threw x
      | .ub => .ub))
    (.ok (G.new g.labelled g.size))

/-! ## LabeledUndirectedGraph -/

def ordered (i j : Nat) : Edge := if i < j then (i, j) else (j, i)

def uHasEdgeRaw (g : G L) (i j : Nat) : Bool := g.hasEdgeRaw (ordered i j).1 (ordered i j).2

def uHasEdge (g : G L) (i j : Nat) : Res Bool :=
  if g.inR i && g.inR j then .ok (g.uHasEdgeRaw i j) else .threw .oor

def uGetEdgeLabel (g : G L) (i j : Nat) (throwIf : Bool) : Res L :=
  if g.inR i && g.inR j then g.getLab (ordered i j) throwIf else .threw .oor

def uHasEdgeL [DecidableEq L] (g : G L) (i j : Nat) (l : L) : Res Bool :=
  match g.uHasEdge i j with
  | .ok true => (g.uGetEdgeLabel i j false).map (fun x => decide (x = l))
  | r => r

def uSetEdgeLabel (g : G L) (i j : Nat) (l : L) (force : Bool) : G L × Res Unit :=
  if !(g.inR i && g.inR j) then (g, .threw .oor)
  else if !force && !g.uHasEdgeRaw i j then (g, .threw .inv)
  else (g.setLab (ordered i j) l, .ok ())

/-- undirected `addEdge` (with the range checks of the repaired code) -/
def uAddEdge (g : G L) (i j : Nat) (l : L) (force : Bool) : G L × Res Unit :=
  if !(g.inR i && g.inR j) then (g, .threw .oor)
  else if force || !g.uHasEdgeRaw i j then
    let g1 := if i ≠ j then g.push i j else g
    let g2 := g1.push j i
    (((g2.setLab (ordered i j) l).withEN (g.edgeNumber + 1)), .ok ())
  else (g, .ok ())

def uRemoveEdgeCore (g : G L) (i j : Nat) : G L :=
  let g1 := g.remove i j
  let diff := (g.nb i).length - (g1.nb i).length
  if diff > 0 then
    (((g1.remove j i).withEN (subW g.edgeNumber diff)).withLabels (g.labels.erase (ordered i j)))
  else g1

def uRemoveEdge (g : G L) (i j : Nat) : G L × Res Unit :=
  if !(g.inR i && g.inR j) then (g, .threw .oor) else (g.uRemoveEdgeCore i j, .ok ())

def uRemoveSelfLoops (g : G L) : G L :=
  (List.range g.size).foldl (fun g i => g.uRemoveEdgeCore i i) g

def uRemoveDuplicateEdges (g : G L) : G L :=
  (List.range g.size).foldl
    (fun g i => (g.withAdj (g.adj.modify i (dedupK []))).withEN
        (subW g.edgeNumber ((dedupR [] (g.nb i)).filter (fun j => decide (i ≤ j))).length)) g

/-- undirected `removeVertexFromEdgeList(v)`: one pass over all lists; an erased entry
`(i,j)` with `i ≤ j` decrements the counter and (as repaired) erases label `(i,j)`. -/
def uRemoveVertex (g : G L) (v : Nat) : G L × Res Unit :=
  if !g.inR v then (g, .threw .oor) else
  ((List.range g.size).foldl (fun g i =>
      let gone := (g.nb i).filter (fun j => i == v || j == v)
      let cnt := gone.filter (fun j => decide (i ≤ j))
      ⟨g.labelled, g.size, g.adj.modify i (List.filter (fun j => !(i == v || j == v))),
        subW g.edgeNumber cnt.length, cnt.foldl (fun m j => AMap.erase m (i, j)) g.labels⟩) g, .ok ())

def uGetDegree (g : G L) (v : Nat) (twice : Bool) : Res Nat :=
  if !g.inR v then .threw .oor
  else if !twice then .ok (g.nb v).length
  else .ok (((g.nb v).map (fun j => if j = v then 2 else 1)).sum)

def uGetDegrees (g : G L) (twice : Bool) : List Nat :=
  (List.range g.size).map (fun v => if !twice then (g.nb v).length else ((g.nb v).map (fun j => if j = v then 2 else 1)).sum)

def uGetAdjacencyMatrix (g : G L) (twice : Bool) : Res (List (List Nat)) :=
  if g.allInR then
    .ok ((List.range g.size).foldl (fun m i =>
      (g.nb i).foldl (fun m j => bump2 m i j (if i == j && twice then 2 else 1)) m) (zeroMatrix g.size))
  else .ub

/-- helper: chain a mutator result into a `Res` of the state -/
def chain (r : Res (G L)) (f : G L → G L × Res Unit) : Res (G L) :=
  r.bind (fun h => match f h with
    | (h', .ok _) => .ok h'
    | (_, .threw x) => .threw x
    | (_, .ub) => .ub)

/-- `getDirectedGraph()` (as repaired: the edge's label is passed to `addReciprocalEdge`) -/
def uGetDirectedGraph (g : G L) : Res (G L) :=
  g.uEdges.foldl (fun r e =>
      if e.1 < e.2 then
        match g.uGetEdgeLabel e.1 e.2 true with
        | .ok l => chain r (fun h => h.dAddReciprocalEdge e.1 e.2 l true)
        | .threw x => r.bind (fun _ => .threw x)
        | .ub => .ub
      else if e.1 = e.2 then
        match g.uGetEdgeLabel e.1 e.2 true with
        | .ok l => chain r (fun h => h.dAddEdge e.1 e.2 l true)
        | .threw x => r.bind (fun _ => .threw x)
        | .ub => .ub
      else r)
    (.ok (G.new g.labelled g.size))

/-- `LabeledUndirectedGraph(const Directed&)` -/
def uOfDirected (d : G L) : Res (G L) :=
  (List.range d.size).foldl (fun r i =>
      (d.nb i).foldl (fun r j =>
        match d.dGetEdgeLabel i j true with
        | .ok l => chain r (fun h => h.uAddEdge i j l false)
        | .threw x => r.bind (fun _ => .threw x)
        | .ub => .ub) r)
    (.ok (G.new d.labelled d.size))

/-! ## edge-list constructors (all simple/labelled classes) -/

/-- constructor body: `resize(max+1)` when needed, then unforced `addEdge` -/
def ofEdgeList (labelled : Bool) (add : G L → Nat → Nat → L → Bool → G L × Res Unit)
    (es : List (Nat × Nat × L)) : Res (G L) :=
  es.foldl (fun r e =>
      let mx := max e.1 e.2.1
      let r1 := chain r (fun h => if mx ≥ h.size then h.resize (mx + 1) else (h, .ok ()))
      chain r1 (fun h => add h e.1 e.2.1 e.2.2 false))
    (.ok (G.new labelled 0))

end G
end BGV
