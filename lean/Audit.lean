import BGV
/-! `#print axioms` for every property theorem; `-- Cxx` section markers are read by vlib/core.py -/

-- C01
#print axioms BGV.C01_inv_reachable
#print axioms BGV.C01_refines
#print axioms BGV.C01_hasEdge
#print axioms BGV.C01_outNeighbours
#print axioms BGV.C01_outDegree
#print axioms BGV.C01_edgeNumber
#print axioms BGV.C01_readd_noop
#print axioms BGV.C01_remove_absent_noop
#print axioms BGV.C01_resize_keeps
#print axioms BGV.C01_removeFront
#print axioms BGV.C01_removeFront_empty
#print axioms BGV.C01_emptying_loop
#print axioms BGV.C01_adjacencyMatrix
#print axioms BGV.C01_inDegree
#print axioms BGV.C01_degree_vectors

-- C02
#print axioms BGV.C02_adjacencyMatrix
#print axioms BGV.C02_degrees
#print axioms BGV.C02_inv_reachable
#print axioms BGV.C02_refines
#print axioms BGV.C02_symmetric
#print axioms BGV.C02_hasEdge
#print axioms BGV.C02_neighbours
#print axioms BGV.C02_edgeNumber
#print axioms BGV.C02_getDegree
#print axioms BGV.C02_removeEdge_exact

-- C03
#print axioms BGV.C03_und_entry_iff_edge
#print axioms BGV.C03_und_getEdgeLabel
#print axioms BGV.C03_entry_iff_edge
#print axioms BGV.C03_getEdgeLabel
#print axioms BGV.C03_hasEdgeL
#print axioms BGV.C03_add_present_keeps_label
#print axioms BGV.C03_recreate_shows_new_label
#print axioms BGV.C03_und_hasEdgeL
#print axioms BGV.C03_und_add_present_keeps_label
#print axioms BGV.C03_und_recreate_shows_new_label

-- C04
#print axioms BGV.C04_dir_inv_reachable
#print axioms BGV.C04_dir_refines
#print axioms BGV.C04_dir_getEdgeMultiplicity
#print axioms BGV.C04_dir_zero_iff_no_edge
#print axioms BGV.C04_dir_edgeNumber
#print axioms BGV.C04_dir_total
#print axioms BGV.C04_dir_outDegree
#print axioms BGV.C04_dir_inDegree
#print axioms BGV.C04_dir_degree_vectors
#print axioms BGV.C04_dir_adjacencyMatrix
#print axioms BGV.C04_und_degree
#print axioms BGV.C04_und_adjacencyMatrix
#print axioms BGV.C04_und_inv_reachable
#print axioms BGV.C04_und_refines
#print axioms BGV.C04_und_getEdgeMultiplicity
#print axioms BGV.C04_und_zero_iff_no_edge
#print axioms BGV.C04_und_edgeNumber
#print axioms BGV.C04_und_total

-- C05
#print axioms BGV.C05_dir_inv_reachable
#print axioms BGV.C05_dir_refines
#print axioms BGV.C05_dir_getEdgeWeight
#print axioms BGV.C05_dir_readd_noop
#print axioms BGV.C05_dir_total
#print axioms BGV.C05_dir_graph_part
#print axioms BGV.C05_und_inv_reachable
#print axioms BGV.C05_und_refines
#print axioms BGV.C05_und_getEdgeWeight
#print axioms BGV.C05_und_readd_noop
#print axioms BGV.C05_und_total
#print axioms BGV.C05_dir_weightMatrix
#print axioms BGV.C05_und_weightMatrix

-- C06
#print axioms BGV.C06_eq_iff_same_graph
#print axioms BGV.C06_refl
#print axioms BGV.C06_symm
#print axioms BGV.C06_history_independent
#print axioms BGV.C06_distinguishes
#print axioms BGV.C06_und_eq_iff_same_graph
#print axioms BGV.C06_und_history_independent
#print axioms BGV.C06_und_refl
#print axioms BGV.C06_und_symm
#print axioms BGV.C06_weighted_dir
#print axioms BGV.C06_weighted_und
#print axioms BGV.C06_multi_dir
#print axioms BGV.C06_multi_und

-- C07
#print axioms BGV.C07_dAddEdge
#print axioms BGV.C07_dAddReciprocalEdge
#print axioms BGV.C07_dRemoveEdge
#print axioms BGV.C07_dSetEdgeLabel
#print axioms BGV.C07_dRemoveVertex
#print axioms BGV.C07_dHasEdge
#print axioms BGV.C07_dHasEdgeL
#print axioms BGV.C07_dGetEdgeLabel
#print axioms BGV.C07_getOutNeighbours
#print axioms BGV.C07_dGetInDegree
#print axioms BGV.C07_dGetOutDegree
#print axioms BGV.C07_resize_smaller
#print axioms BGV.C07_dSetEdgeLabel_missing
#print axioms BGV.C07_dGetEdgeLabel_missing
#print axioms BGV.C07_uAddEdge
#print axioms BGV.C07_uRemoveEdge
#print axioms BGV.C07_uSetEdgeLabel
#print axioms BGV.C07_uRemoveVertex
#print axioms BGV.C07_uHasEdge
#print axioms BGV.C07_uGetEdgeLabel
#print axioms BGV.C07_uGetDegree
#print axioms BGV.C07_uSetEdgeLabel_missing
#print axioms BGV.C07_dAddMultiedge
#print axioms BGV.C07_dAddReciprocalMultiedge
#print axioms BGV.C07_dRemoveMultiedge
#print axioms BGV.C07_dSetEdgeMultiplicity
#print axioms BGV.C07_dGetEdgeMultiplicity
#print axioms BGV.C07_mdRemoveVertex
#print axioms BGV.C07_uAddMultiedge
#print axioms BGV.C07_uRemoveMultiedge
#print axioms BGV.C07_uSetEdgeMultiplicity
#print axioms BGV.C07_uGetEdgeMultiplicity
#print axioms BGV.C07_muRemoveVertex
#print axioms BGV.C07_mResize_smaller
#print axioms BGV.C07_wdAddEdge
#print axioms BGV.C07_wdAddReciprocalEdge
#print axioms BGV.C07_wdRemoveEdge
#print axioms BGV.C07_wdSetEdgeWeight
#print axioms BGV.C07_wdGetEdgeWeight
#print axioms BGV.C07_wdRemoveVertex
#print axioms BGV.C07_wuAddEdge
#print axioms BGV.C07_wuRemoveEdge
#print axioms BGV.C07_wuSetEdgeWeight
#print axioms BGV.C07_wuGetEdgeWeight
#print axioms BGV.C07_wuRemoveVertex
#print axioms BGV.C07_subLoop_oor_head
#print axioms BGV.C07_rejected_unchanged
#print axioms BGV.C07_history
#print axioms BGV.C07_pathTo_oor
#print axioms BGV.C07_pathTo_search_oor
#print axioms BGV.C07_pathTo3_oor
#print axioms BGV.C07_search_source_oor
#print axioms BGV.C07_geodesics_oor
#print axioms BGV.C07_dijkstra_oor

-- C08
#print axioms BGV.C08_vertices
#print axioms BGV.C08_dEdges
#print axioms BGV.C08_begin_eq_end_iff
#print axioms BGV.C08_mem_dEdges
#print axioms BGV.C08_dEdges_nodup
#print axioms BGV.C08_postIncr
#print axioms BGV.C08_enumeration_defined
#print axioms BGV.C08_uEdges
#print axioms BGV.C08_mem_uEdges
#print axioms BGV.C08_uEdges_nodup
#print axioms BGV.C08_uEdges_length

-- C09
#print axioms BGV.C09_reversed
#print axioms BGV.C09_reversed_twice
#print axioms BGV.C09_dOfEdgeList
#print axioms BGV.C09_uOfEdgeList
#print axioms BGV.C09_getDirectedGraph
#print axioms BGV.C09_uOfDirected
#print axioms BGV.C09_und_dir_und
#print axioms BGV.C09_dmulti_ofEdgeList
#print axioms BGV.C09_umulti_ofEdgeList
#print axioms BGV.C09_dweighted_ofEdgeList
#print axioms BGV.C09_uweighted_ofEdgeList

-- C10
#print axioms BGV.C10_getSubgraph
#print axioms BGV.C10_bad_vertex
#print axioms BGV.C10_getSubgraphWithRemap
#print axioms BGV.C10_bad_vertex_anywhere
#print axioms BGV.C10_und_getSubgraph
#print axioms BGV.C10_und_getSubgraphWithRemap

-- C11
#print axioms BGV.C11_findSourceVertex_bfs
#print axioms BGV.C11_findSourceVertex_allpred
#print axioms BGV.C11_pathTo3_eq
#print axioms BGV.C11_pathTo_geodesics
#print axioms BGV.C11_findVertexPredecessors
#print axioms BGV.C11_entry
#print axioms BGV.C11_findAllVertexPredecessors
#print axioms BGV.C11_entry_all
#print axioms BGV.C11_findGeodesics
#print axioms BGV.C11_findAllGeodesics
#print axioms BGV.C11_findGeodesicsFromVertex
#print axioms BGV.C11_findAllGeodesicsFromVertex
#print axioms BGV.C11_reconstructed_path_nodup
#print axioms BGV.C11_findGeodesics_nodup
#print axioms BGV.C11_shortest_path_nodup
#print axioms BGV.C11_findAllGeodesics_paths_nodup
#print axioms BGV.C11_findSourceVertex_spec

-- C12
#print axioms BGV.C12_dijkstra_correct
#print axioms BGV.C12_distance_is_minimum
#print axioms BGV.C12_entry
#print axioms BGV.C12_terminates

-- C13
#print axioms BGV.C13_tokenise
#print axioms BGV.C13_comment_skipped
#print axioms BGV.C13_stoi_showNat
#print axioms BGV.C13_written_line
#print axioms BGV.C13_dir_roundtrip
#print axioms BGV.C13_und_roundtrip
#print axioms BGV.C13_named_numbering
#print axioms BGV.C13_named_line
#print axioms BGV.C13_named_lines

-- C14
#print axioms BGV.C14_layout
#print axioms BGV.C14_roundtrip_records
#print axioms BGV.C14_codec_unsigned
#print axioms BGV.C14_codec_signed
#print axioms BGV.C14_codec_float
#print axioms BGV.C14_codec_double
#print axioms BGV.C14_dir_roundtrip
#print axioms BGV.C14_und_roundtrip

-- C15
#print axioms BGV.C15_truncated_records
#print axioms BGV.C15_loadText_total
#print axioms BGV.C15_loadBin_total

-- C16
#print axioms BGV.C16_forced_add
#print axioms BGV.C16_removeEdge_all_copies
#print axioms BGV.C16_removeDuplicateEdges
#print axioms BGV.C16_dedup_restores_inv
#print axioms BGV.C16_und_adjacencyMatrix_counts
#print axioms BGV.C16_multi_forced_add
#print axioms BGV.C16_adjacencyMatrix_counts
#print axioms BGV.C16_uweighted_forced_add
#print axioms BGV.C16_umulti_forced_add
#print axioms BGV.C16_multi_removeDuplicateEdges
#print axioms BGV.C16_umulti_removeDuplicateEdges
#print axioms BGV.C16_uweighted_removeDuplicateEdges
#print axioms BGV.C16_und_removeDuplicateEdges
#print axioms BGV.C16_und_forced_add
#print axioms BGV.C16_weighted_removeDuplicateEdges
#print axioms BGV.C16_weighted_forced_add

-- C17
#print axioms BGV.C17_dStep_no_ub
#print axioms BGV.C17_iter_deref_defined
#print axioms BGV.C17_enumeration_observers_no_ub
#print axioms BGV.C17_bfs_no_ub
#print axioms BGV.C17_allpred_no_ub
#print axioms BGV.C17_findGeodesics_no_ub
#print axioms BGV.C17_conversions_no_ub
#print axioms BGV.C17_ctor_no_ub
#print axioms BGV.C17_subgraph_no_ub
#print axioms BGV.C17_findAllGeodesics_no_ub
#print axioms BGV.C17_dijkstra_no_ub
#print axioms BGV.C17_multigraph_observers_no_ub
#print axioms BGV.C17_derived_ctor_no_ub
#print axioms BGV.C17_pathTo_no_ub

-- C19
#print axioms BGV.C19_bfs_scans
#print axioms BGV.C19_bfs_scans_nodup
#print axioms BGV.C19_allpred_scans
#print axioms BGV.C19_dijkstra_scans
#print axioms BGV.C19_findAllGeodesics_steps
#print axioms BGV.C19_reconstruction_steps
#print axioms BGV.C19_findGeodesics_path_le
#print axioms BGV.C19_findGeodesicsFromVertex_size
