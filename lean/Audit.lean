import BGV
/-! `#print axioms` for every property theorem; sections are read by vlib/core.py -/
