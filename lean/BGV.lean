import BGV.Model.Basic
import BGV.Model.Graph
import BGV.Model.Multi
import BGV.Model.Weighted
import BGV.Model.Topology
