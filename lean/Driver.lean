import BGV.Model.Basic
import BGV.Model.Graph
import BGV.Model.Multi
import BGV.Model.Weighted
import BGV.Model.Topology
import BGV.Model.Paths
import BGV.Model.PathHelpers
import BGV.Model.FileIO
/-!
# Driver — interprets the line protocol of /verif/DESIGN.md §2.2 over the Lean model.

One operation per input line; after each one the outcome and the canonical dump of the
slots it names are printed.  The C++ harness (`/verif/harness/bgh.cpp`) interprets the same
lines over the real classes; the two transcripts must be byte-identical.
This file is glue (parsing/printing) and is not covered by theorems.
-/
open BGV

inductive Slot where
  | empty
  | gr (und : Bool) (g : G Int)
  | mg (und : Bool) (m : MG)
  | wg (und : Bool) (w : WG)

def showRes {α} (f : α → String) : Res α → String
  | .ok a => f a
  | .threw e => "!" ++ e.name
  | .ub => "!UB"

def showUnit (r : Res Unit) : String := showRes (fun _ => "ok") r
def showBool (b : Bool) : String := if b then "1" else "0"
def joinNat (l : List Nat) : String := " ".intercalate (l.map toString)
def joinInt (l : List Int) : String := " ".intercalate (l.map toString)
def showEdges (l : List Edge) : String := " ".intercalate (l.map (fun e => s!"{e.1},{e.2}"))
def showMatrix (m : List (List Nat)) : String := " / ".intercalate (m.map joinNat)
def showIMatrix (m : List (List Int)) : String := " / ".intercalate (m.map joinInt)

def allRes {α} (l : List (Res α)) (f : α → String) : String :=
  " ".intercalate (l.map (showRes f))


/-! ### file-routine verbs -/
def hexDigit (n : Nat) : Char := if n < 10 then Char.ofNat (48 + n) else Char.ofNat (87 + n)
def hexOf (b : FIO.Bytes) : String :=
  if b.isEmpty then "-" else String.ofList (b.flatMap (fun c => [hexDigit (c.toNat / 16), hexDigit (c.toNat % 16)]))
def hexVal (c : Char) : Option Nat :=
  if '0' ≤ c ∧ c ≤ '9' then some (c.toNat - 48) else if 'a' ≤ c ∧ c ≤ 'f' then some (c.toNat - 87) else none
def ofHexAux : List Char → Option FIO.Bytes
  | [] => some []
  | a :: b :: r => do
    let x ← hexVal a; let y ← hexVal b; let t ← ofHexAux r
    pure (UInt8.ofNat (x * 16 + y) :: t)
  | _ => none
def ofHex (s : String) : Option FIO.Bytes := if s == "-" then some [] else ofHexAux s.toList

def strBase : Int := 1000000000000000000000000000000
/-- string labels travel as integer tokens: "" ↦ 0, "s<k>" ↦ k (canonical decimal, 0 < |k| < 10^6),
anything else ↦ 10^6 + an injective base-257 code of the bytes -/
def strOfTok (t : Int) : FIO.Bytes :=
  if t == 0 then []
  else if t < strBase then 115 :: FIO.showInt t
  else
    let rec dec (fuel n : Nat) : FIO.Bytes :=
      match fuel with
      | 0 => []
      | f+1 => if n == 0 then [] else UInt8.ofNat (n % 257 - 1) :: dec f (n / 257)
    dec 10000 (t - strBase).toNat
def tokOfStr (b : FIO.Bytes) : Int :=
  if b.isEmpty then 0 else
  let canon : Option Int := match b with
    | c :: r => if c == 115 && r.length < 8 then
        match FIO.stoi r with
        | .ok k => if k != 0 && k < 1000000 && k > -1000000 && FIO.showInt k == r then some k else none
        | _ => none
      else none
    | [] => none
  match canon with
  | some k => k
  | none => strBase + ((b.reverse.foldl (fun a c => a * 257 + (c.toNat + 1)) 0 : Nat) : Int)
def showLabel (t : Int) : String := if t ≥ strBase then "?" ++ (let h := hexOf (strOfTok t); if h == "-" then "" else h) else toString t

def textToStr (kind : String) : Option (Int → FIO.Bytes) :=
  if kind == "int" then some FIO.showInt else if kind == "str" then some strOfTok else if kind == "none" then some (fun _ => []) else none
def textOfStr (kind : String) : Option (FIO.Bytes → Res Int) :=
  if kind == "int" then some FIO.stoi else if kind == "str" then some (fun b => .ok (tokOfStr b))
  else if kind == "none" then some (fun _ => .ok 0) else none
/-- (width, encoder, decoder) of the binary label codecs -/
def binCodec (kind : String) : Option (Nat × (Int → FIO.Bytes) × (FIO.Bytes → Int)) :=
  match kind with
  | "none" => some (0, fun _ => [], fun _ => 0)
  | "chr" => some (1, FIO.leBytes 1, FIO.ofLeBytes true 1)
  | "i16" => some (2, FIO.leBytes 2, FIO.ofLeBytes true 2)
  | "int" => some (4, FIO.leBytes 4, FIO.ofLeBytes true 4)
  | "uint" => some (4, FIO.leBytes 4, FIO.ofLeBytes false 4)
  | "i64" => some (8, FIO.leBytes 8, FIO.ofLeBytes true 8)
  | "flt" => some (4, FIO.ieeeBytes 4 23 127, FIO.ofIeee 4 23 127)
  | "dbl" => some (8, FIO.ieeeBytes 8 52 1023, FIO.ofIeee 8 52 1023)
  | _ => none

def ioWrite (sl : Slot) (verb kind : String) : Option (List String) :=
  match sl with
  | .gr und g =>
    if g.labelled != (kind != "none") then none else
    if verb == "writetext" then do
      let f ← textToStr kind
      match FIO.writeTextGraph und g f with
      | .ok b => pure ["R ok", "F " ++ hexOf b]
      | .threw e => pure ["R !" ++ e.name]
      | .ub => pure ["R !UB"]
    else if verb == "writebin" then do
      let (_, enc, _) ← binCodec kind
      match FIO.writeBinGraph und g enc with
      | .ok b => pure ["R ok", "F " ++ hexOf b]
      | .threw e => pure ["R !" ++ e.name]
      | .ub => pure ["R !UB"]
    else none
  | _ => none


/-- lines common to all classes -/
def dumpBase {L : Type} [Inhabited L] (und : Bool) (g : G L) : List String :=
  let n := g.size
  let rng := List.range n
  let nbs := rng.map (fun i => s!"N {i}: " ++ showRes joinNat (g.getOutNeighbours i))
  let has := rng.map (fun i => s!"H {i}: " ++ "".intercalate (rng.map (fun j =>
      showRes showBool (if und then g.uHasEdge i j else g.dHasEdge i j))))
  let es := if und then g.uEdges else g.dEdges
  let be := showBool (g.itBegin == g.itEnd)
  nbs ++ has ++ [s!"E pre: {showEdges es} | post: {showEdges es} | be={be} | two: {showEdges es} | be2={be}", s!"V pre: {joinNat g.vertices} | post: {joinNat g.vertices}"]

def dumpLabels (und : Bool) (g : G Int) : List String :=
  if !g.labelled then [] else
  let rng := List.range g.size
  rng.map (fun i => s!"L {i}: " ++ " ".intercalate (rng.map (fun j =>
      let a := if und then g.uGetEdgeLabel i j true else g.dGetEdgeLabel i j true
      let b := if und then g.uGetEdgeLabel i j false else g.dGetEdgeLabel i j false
      showRes showLabel a ++ "/" ++ showRes showLabel b)))

def dumpDirObs {L : Type} [Inhabited L] (g : G L) : List String :=
  let rng := List.range g.size
  [ s!"O out: {allRes (rng.map g.dGetOutDegree) toString} | outs: {joinNat g.dGetOutDegrees} | in: {allRes (rng.map g.dGetInDegree) toString} | ins: {showRes joinNat g.dGetInDegrees}",
    s!"M {showRes showMatrix g.dGetAdjacencyMatrix}" ]

def dumpUndObs {L : Type} [Inhabited L] (g : G L) : List String :=
  let rng := List.range g.size
  [ s!"G deg2: {allRes (rng.map (g.uGetDegree · true)) toString} | deg1: {allRes (rng.map (g.uGetDegree · false)) toString} | degs2: {joinNat (g.uGetDegrees true)} | degs1: {joinNat (g.uGetDegrees false)} | degd: {allRes (rng.map (g.uGetDegree · true)) toString} | degsd: {joinNat (g.uGetDegrees true)} | Md=M2: {showRes (fun _ => "1") (g.uGetAdjacencyMatrix true)}",
    s!"M2 {showRes showMatrix (g.uGetAdjacencyMatrix true)}",
    s!"M1 {showRes showMatrix (g.uGetAdjacencyMatrix false)}" ]

def dumpSlot (s : Nat) : Slot → List String
  | .empty => [s!"D {s} empty"]
  | .gr und g =>
    [s!"D {s} {if und then "und" else "dir"} size={g.size} en={g.edgeNumber}"] ++
    dumpBase und g ++ dumpLabels und g ++ (if und then dumpUndObs g else dumpDirObs g)
  | .mg und m =>
    let rng := List.range m.g.size
    [s!"D {s} {if und then "umulti" else "dmulti"} size={m.g.size} en={m.g.edgeNumber} tot={m.total}"] ++
    dumpBase und m.g ++
    rng.map (fun i => s!"X {i}: " ++ allRes (rng.map (fun j =>
      if und then m.uGetEdgeMultiplicity i j else m.dGetEdgeMultiplicity i j)) toString) ++
    (if und then
      [ s!"G deg2: {allRes (rng.map (m.uGetDegree · true)) toString} | deg1: {allRes (rng.map (m.uGetDegree · false)) toString} | degs2: {showRes joinNat (m.uGetDegrees true)} | degs1: {showRes joinNat (m.uGetDegrees false)} | degd: {allRes (rng.map (m.uGetDegree · true)) toString} | degsd: {showRes joinNat (m.uGetDegrees true)} | Md=M2: {showRes (fun _ => "1") (m.uGetAdjacencyMatrix true)}",
        s!"M2 {showRes showMatrix (m.uGetAdjacencyMatrix true)}",
        s!"M1 {showRes showMatrix (m.uGetAdjacencyMatrix false)}" ]
     else
      [ s!"O out: {allRes (rng.map m.dGetOutDegree) toString} | outs: {showRes joinNat m.dGetOutDegrees} | in: {allRes (rng.map m.dGetInDegree) toString} | ins: {showRes joinNat m.dGetInDegrees}",
        s!"M {showRes showMatrix m.dGetAdjacencyMatrix}" ])
  | .wg und w =>
    let rng := List.range w.g.size
    [s!"D {s} {if und then "uw" else "dw"} size={w.g.size} en={w.g.edgeNumber} tot={w.total}"] ++
    dumpBase und w.g ++
    rng.map (fun i => s!"W {i}: " ++ " ".intercalate (rng.map (fun j =>
      let a := if und then w.uGetEdgeWeight i j true else w.dGetEdgeWeight i j true
      let b := if und then w.uGetEdgeWeight i j false else w.dGetEdgeWeight i j false
      showRes toString a ++ "/" ++ showRes toString b))) ++
    [s!"WM {showRes showIMatrix (if und then w.uGetWeightMatrix else w.dGetWeightMatrix)}"] ++
    (if und then dumpUndObs w.g else dumpDirObs w.g)

abbrev Slots := Array Slot

def getSlot (ss : Slots) (s : Nat) : Slot := ss.getD s .empty
def setSlot (ss : Slots) (s : Nat) (x : Slot) : Slots :=
  let ss := if s < ss.size then ss else ss ++ Array.replicate (s + 1 - ss.size) Slot.empty
  ss.set! s x

def nat? (s : String) : Option Nat := s.toNat?
def int? (s : String) : Option Int := s.toInt?
/-- label token: an integer, or `?<hex>` — the bytes of a string label (only offered for string labels) -/
def lab? (s : String) : Option Int :=
  if s.startsWith "?" then (ofHex (s.drop 1).toString).map tokOfStr else s.toInt?
/-- query flags (`throwIfInexistent`, `countSelfLoopsTwice`): `d` = argument left out = the documented default `true` -/
def flagT? (s : String) : Option Bool := if s == "1" || s == "d" then some true else if s == "0" then some false else none
/-- `force` flags: `d` = argument left out = the documented default `false` -/
def flag? (s : String) : Option Bool := if s == "d" then some false else if s == "1" then some true else if s == "0" then some false else none

def natList (ws : List String) : Option (List Nat) := ws.mapM nat?

/-- parse `i j l i j l …` -/
def triples : List String → Option (List (Nat × Nat × Int))
  | [] => some []
  | a :: b :: c :: rest => do
    let i ← nat? a; let j ← nat? b; let l ← int? c
    let r ← triples rest
    pure ((i, j, l) :: r)
  | _ => none

def bad : String := "bad-op"

/-- mutators on a slot: returns the new slot and the outcome string -/
def mutate (sl : Slot) (verb : String) (args : List String) : Option (Slot × String) :=
  match sl, verb, args with
  -- simple / labelled graphs
  | .gr und g, "resize", [n] => do
    let n ← nat? n; let (g', r) := g.resize n; pure (.gr und g', showUnit r)
  | .gr und g, "addEdge", [i, j, l, f] => do
    let i ← nat? i; let j ← nat? j; let l ← lab? l; let f ← flag? f
    let (g', r) := if und then g.uAddEdge i j l f else g.dAddEdge i j l f
    pure (.gr und g', showUnit r)
  | .gr false g, "addReciprocalEdge", [i, j, l, f] => do
    let i ← nat? i; let j ← nat? j; let l ← lab? l; let f ← flag? f
    let (g', r) := g.dAddReciprocalEdge i j l f
    pure (.gr false g', showUnit r)
  | .gr und g, "setEdgeLabel", [i, j, l, f] => do
    let i ← nat? i; let j ← nat? j; let l ← lab? l; let f ← flag? f
    let (g', r) := if und then g.uSetEdgeLabel i j l f else g.dSetEdgeLabel i j l f
    pure (.gr und g', showUnit r)
  | .gr und g, "removeEdge", [i, j] => do
    let i ← nat? i; let j ← nat? j
    let (g', r) := if und then g.uRemoveEdge i j else g.dRemoveEdge i j
    pure (.gr und g', showUnit r)
  | .gr false g, "removeFrontEdge", [i] => do
    let i ← nat? i
    let (g', r) := g.dRemoveFrontEdge i
    pure (.gr false g', showRes (fun b => if b then "ok" else "none") r)
  | .gr und g, "removeFrontEdge", [i] => do
    let i ← nat? i
    match g.getOutNeighbours i with
    | .ok [] => pure (.gr und g, "none")
    | .ok (j :: _) =>
      let (g', r) := if und then g.uRemoveEdge i j else g.dRemoveEdge i j
      pure (.gr und g', showUnit r)
    | r => pure (.gr und g, showRes joinNat r)
  | .gr und g, "removeSelfLoops", [] =>
    pure (.gr und (if und then g.uRemoveSelfLoops else g.dRemoveSelfLoops), "ok")
  | .gr und g, "removeDuplicateEdges", [] =>
    pure (.gr und (if und then g.uRemoveDuplicateEdges else g.dRemoveDuplicateEdges), "ok")
  | .gr und g, "removeVertexFromEdgeList", [v] => do
    let v ← nat? v
    let (g', r) := if und then g.uRemoveVertex v else g.dRemoveVertex v
    pure (.gr und g', showUnit r)
  | .gr und g, "clearEdges", [] => pure (.gr und g.clearEdges, "ok")
  -- multigraphs
  | .mg und m, "resize", [n] => do
    let n ← nat? n; let (m', r) := m.resize n; pure (.mg und m', showUnit r)
  | .mg und m, "addEdge", [i, j, f] => do
    let i ← nat? i; let j ← nat? j; let f ← flag? f
    let (m', r) := if und then m.uAddMultiedge i j 1 f else m.dAddMultiedge i j 1 f
    pure (.mg und m', showUnit r)
  | .mg und m, "addMultiedge", [i, j, k, f] => do
    let i ← nat? i; let j ← nat? j; let k ← nat? k; let f ← flag? f
    let (m', r) := if und then m.uAddMultiedge i j k f else m.dAddMultiedge i j k f
    pure (.mg und m', showUnit r)
  | .mg false m, "addReciprocalEdge", [i, j, f] => do
    let i ← nat? i; let j ← nat? j; let f ← flag? f
    let (m', r) := m.dAddReciprocalMultiedge i j 1 f
    pure (.mg false m', showUnit r)
  | .mg false m, "addReciprocalMultiedge", [i, j, k, f] => do
    let i ← nat? i; let j ← nat? j; let k ← nat? k; let f ← flag? f
    let (m', r) := m.dAddReciprocalMultiedge i j k f
    pure (.mg false m', showUnit r)
  | .mg und m, "removeEdge", [i, j] => do
    let i ← nat? i; let j ← nat? j
    let (m', r) := if und then m.uRemoveMultiedge i j 1 else m.dRemoveMultiedge i j 1
    pure (.mg und m', showUnit r)
  | .mg und m, "removeFrontEdge", [i] => do
    let i ← nat? i
    match m.g.getOutNeighbours i with
    | .ok [] => pure (.mg und m, "none")
    | .ok (j :: _) =>
      let (m', r) := if und then m.uRemoveMultiedge i j 1 else m.dRemoveMultiedge i j 1
      pure (.mg und m', showUnit r)
    | r => pure (.mg und m, showRes joinNat r)
  | .mg und m, "removeMultiedge", [i, j, k] => do
    let i ← nat? i; let j ← nat? j; let k ← nat? k
    let (m', r) := if und then m.uRemoveMultiedge i j k else m.dRemoveMultiedge i j k
    pure (.mg und m', showUnit r)
  | .mg und m, "setEdgeMultiplicity", [i, j, k] => do
    let i ← nat? i; let j ← nat? j; let k ← nat? k
    let (m', r) := if und then m.uSetEdgeMultiplicity i j k else m.dSetEdgeMultiplicity i j k
    pure (.mg und m', showUnit r)
  | .mg und m, "removeSelfLoops", [] =>
    pure (.mg und (if und then m.uRemoveSelfLoops else m.dRemoveSelfLoops), "ok")
  | .mg und m, "removeDuplicateEdges", [] =>
    pure (.mg und (if und then m.uRemoveDuplicateEdges else m.dRemoveDuplicateEdges), "ok")
  | .mg und m, "removeVertexFromEdgeList", [v] => do
    let v ← nat? v
    let (m', r) := if und then m.uRemoveVertex v else m.dRemoveVertex v
    pure (.mg und m', showUnit r)
  | .mg und m, "clearEdges", [] => pure (.mg und m.clearEdges, "ok")
  -- weighted graphs
  | .wg und w, "resize", [n] => do
    let n ← nat? n; let (w', r) := w.resize n; pure (.wg und w', showUnit r)
  | .wg und w, "addEdge", [i, j, x, f] => do
    let i ← nat? i; let j ← nat? j; let x ← int? x; let f ← flag? f
    let (w', r) := if und then w.uAddEdge i j x f else w.dAddEdge i j x f
    pure (.wg und w', showUnit r)
  | .wg false w, "addReciprocalEdge", [i, j, f] => do
    let i ← nat? i; let j ← nat? j; let f ← flag? f
    let (w', r) := w.dAddReciprocalEdge i j f
    pure (.wg false w', showUnit r)
  | .wg und w, "setEdgeWeight", [i, j, x] => do
    let i ← nat? i; let j ← nat? j; let x ← int? x
    let (w', r) := if und then w.uSetEdgeWeight i j x else w.dSetEdgeWeight i j x
    pure (.wg und w', showUnit r)
  | .wg und w, "removeEdge", [i, j] => do
    let i ← nat? i; let j ← nat? j
    let (w', r) := if und then w.uRemoveEdge i j else w.dRemoveEdge i j
    pure (.wg und w', showUnit r)
  | .wg und w, "removeFrontEdge", [i] => do
    let i ← nat? i
    match w.g.getOutNeighbours i with
    | .ok [] => pure (.wg und w, "none")
    | .ok (j :: _) =>
      let (w', r) := if und then w.uRemoveEdge i j else w.dRemoveEdge i j
      pure (.wg und w', showUnit r)
    | r => pure (.wg und w, showRes joinNat r)
  | .wg und w, "removeSelfLoops", [] =>
    pure (.wg und (if und then w.uRemoveSelfLoops else w.dRemoveSelfLoops), "ok")
  | .wg und w, "removeDuplicateEdges", [] =>
    pure (.wg und (if und then w.uRemoveDuplicateEdges else w.dRemoveDuplicateEdges), "ok")
  | .wg und w, "removeVertexFromEdgeList", [v] => do
    let v ← nat? v
    let (w', r) := if und then w.uRemoveVertex v else w.dRemoveVertex v
    pure (.wg und w', showUnit r)
  | .wg und w, "clearEdges", [] => pure (.wg und w.clearEdges, "ok")
  | _, _, _ => none

/-- single observer calls (`q slot name args…`) -/
def query (sl : Slot) (name : String) (args : List String) : Option String :=
  match sl, name, args with
  | .gr und g, "hasEdge", [i, j] => do
    let i ← nat? i; let j ← nat? j
    pure (showRes showBool (if und then g.uHasEdge i j else g.dHasEdge i j))
  | .gr und g, "hasEdgeL", [i, j, l] => do
    let i ← nat? i; let j ← nat? j; let l ← lab? l
    pure (showRes showBool (if und then g.uHasEdgeL i j l else g.dHasEdgeL i j l))
  | .gr und g, "getEdgeLabel", [i, j, t] => do
    let i ← nat? i; let j ← nat? j; let t ← flagT? t
    if g.labelled then
      pure (showRes showLabel (if und then g.uGetEdgeLabel i j t else g.dGetEdgeLabel i j t))
    else
      pure (showRes (fun _ => "-") (if und then g.uGetEdgeLabel i j t else g.dGetEdgeLabel i j t))
  | .gr _ g, "getOutNeighbours", [i] => do
    let i ← nat? i; pure (showRes joinNat (g.getOutNeighbours i))
  | .gr false g, "getInDegree", [v] => do let v ← nat? v; pure (showRes toString (g.dGetInDegree v))
  | .gr false g, "getOutDegree", [v] => do let v ← nat? v; pure (showRes toString (g.dGetOutDegree v))
  | .gr true g, "getDegree", [v, t] => do
    let v ← nat? v; let t ← flagT? t; pure (showRes toString (g.uGetDegree v t))
  | .gr true g, "getNeighbours", [i] => do
    let i ← nat? i; pure (showRes joinNat (g.getOutNeighbours i))
  | .mg und m, "hasEdge", [i, j] => do
    let i ← nat? i; let j ← nat? j
    pure (showRes showBool (if und then m.g.uHasEdge i j else m.g.dHasEdge i j))
  | .mg _ m, "getOutNeighbours", [i] => do
    let i ← nat? i; pure (showRes joinNat (m.g.getOutNeighbours i))
  | .mg und m, "getEdgeMultiplicity", [i, j] => do
    let i ← nat? i; let j ← nat? j
    pure (showRes toString (if und then m.uGetEdgeMultiplicity i j else m.dGetEdgeMultiplicity i j))
  | .mg false m, "getInDegree", [v] => do let v ← nat? v; pure (showRes toString (m.dGetInDegree v))
  | .mg false m, "getOutDegree", [v] => do let v ← nat? v; pure (showRes toString (m.dGetOutDegree v))
  | .mg true m, "getDegree", [v, t] => do
    let v ← nat? v; let t ← flagT? t; pure (showRes toString (m.uGetDegree v t))
  | .wg und w, "hasEdge", [i, j] => do
    let i ← nat? i; let j ← nat? j
    pure (showRes showBool (if und then w.g.uHasEdge i j else w.g.dHasEdge i j))
  | .wg _ w, "getOutNeighbours", [i] => do
    let i ← nat? i; pure (showRes joinNat (w.g.getOutNeighbours i))
  | .wg und w, "getEdgeWeight", [i, j, t] => do
    let i ← nat? i; let j ← nat? j; let t ← flagT? t
    pure (showRes toString (if und then w.uGetEdgeWeight i j t else w.dGetEdgeWeight i j t))
  | .wg false w, "getInDegree", [v] => do let v ← nat? v; pure (showRes toString (w.g.dGetInDegree v))
  | .wg false w, "getOutDegree", [v] => do let v ← nat? v; pure (showRes toString (w.g.dGetOutDegree v))
  | .wg true w, "getDegree", [v, t] => do
    let v ← nat? v; let t ← flagT? t; pure (showRes toString (w.g.uGetDegree v t))
  | _, _, _ => none

def slotEq : Slot → Slot → Option Bool
  | .gr u1 g, .gr u2 h => if u1 == u2 then some (g.dEq h) else none
  | .mg u1 g, .mg u2 h => if u1 == u2 then some (g.g.dEq h.g) else none
  | .wg u1 g, .wg u2 h => if u1 == u2 then some (g.g.dEq h.g) else none
  | _, _ => none


def joinOptNat (l : List (Option Nat)) : String :=
  " ".intercalate (l.map (fun o => match o with | some x => toString x | none => "inf"))
def showPath (p : List Nat) : String := if p.isEmpty then "-" else ",".intercalate (p.map toString)
def showPaths (ps : List (List Nat)) : String := if ps.isEmpty then "-" else " ".intercalate (ps.map showPath)

/-- path-search verbs on a slot -/
def algo (sl : Slot) (verb : String) (args : List String) : Option (List String) :=
  -- the hop-count searches see a multigraph / weighted graph through `asLabeledGraph()`: the same lists
  let simple : Option (Bool × G Int) := match sl with
    | .gr und g => some (und, g)
    | .mg und m => if verb == "dijkstra" then none else some (und, ⟨true, m.g.size, m.g.adj, m.g.edgeNumber, []⟩)
    | .wg und w => if verb == "dijkstra" then none else some (und, w.g)
    | _ => none
  match verb, args, simple, sl with
  | "bfs", [s], some (_, g), _ => do
    let s ← nat? s
    match findVertexPredecessors g s with
    | .ok r => pure ["R ok", s!"P dist: {joinNat r.dist} | pred: {joinNat r.pred} | scans: {joinNat r.scans} | VE: {g.size} {g.sumLen}"]
    | .threw e => pure ["R !" ++ e.name]
    | .ub => pure ["R !UB"]
  | "allpred", [s], some (_, g), _ => do
    let s ← nat? s
    match findAllVertexPredecessors g s with
    | .ok r => pure ["R ok", s!"P dist: {joinNat r.dist} | preds: {" ".intercalate (r.preds.map showPath)} | scans: {joinNat r.scans} | VE: {g.size} {g.sumLen}"]
    | .threw e => pure ["R !" ++ e.name]
    | .ub => pure ["R !UB"]
  | "geodesic", [s, t], some (_, g), _ => do
    let s ← nat? s; let t ← nat? t
    pure ["R " ++ showRes (fun p => "ok path: " ++ showPath p) (findGeodesics g s t)]
  | "allgeodesics", [s, t], some (_, g), _ => do
    let s ← nat? s; let t ← nat? t
    pure ["R " ++ showRes (fun p => "ok paths: " ++ showPaths p) (findAllGeodesics g s t)]
  | "pathto", [ps, s, t], some (_, g), _ => do
    let ps ← nat? ps; let s ← nat? s; let t ← nat? t
    pure ["R " ++ showRes (fun p => "ok path: " ++ showPath p) (pathTo g ps s t)]
  | "pathto3", [ps, t], some (_, g), _ => do
    let ps ← nat? ps; let t ← nat? t
    pure ["R " ++ showRes (fun p => "ok path: " ++ showPath p) (pathTo3 g ps t)]
  | "allpathsto", [ps, s, t], some (_, g), _ => do
    let ps ← nat? ps; let s ← nat? s; let t ← nat? t
    pure ["R " ++ showRes (fun p => "ok paths: " ++ showPaths p) (allPathsTo g ps s t)]
  | "allpathsto3", [ps, t], some (_, g), _ => do
    let ps ← nat? ps; let t ← nat? t
    pure ["R " ++ showRes (fun p => "ok paths: " ++ showPaths p) (allPathsTo3 g ps t)]
  | "geodesicsfrom", [s], some (_, g), _ => do
    let s ← nat? s
    pure ["R " ++ showRes (fun ps => "ok from: " ++ " ".intercalate (ps.map showPath)) (findGeodesicsFromVertex g s)]
  | "allgeodesicsfrom", [s], some (_, g), _ => do
    let s ← nat? s
    pure ["R " ++ showRes (fun pss => "ok allfrom: " ++ " | ".intercalate (pss.map showPaths)) (findAllGeodesicsFromVertex g s)]
  | "dijkstra", s :: "pops" :: pops, _, .wg und w => do
    let s ← nat? s; let pops ← natList pops
    if !wgNonNeg w then pure ["R !negative-weight"] else
    match findGeodesicsDijkstra und w s pops with
    | .ok (some r) => pure (["R ok", s!"P dist: {joinOptNat r.dist} | pred: {joinNat r.pred} | scans: n={pops.length} | VE: {w.g.size} {w.g.sumLen}"]
        ++ (if r.allMin then [] else ["T a popped vertex was not a minimum of the worklist (heap order violated)"]))
    | .ok none => pure ["R !illegal-pop-order"]
    | .threw e => pure ["R !" ++ e.name]
    | .ub => pure ["R !UB"]
  | "dijkstra", [s], _, .wg und w => do
    -- no oracle: only the rejected-call case can be answered
    let s ← nat? s
    match findGeodesicsDijkstra und w s [] with
    | .threw e => pure ["R !" ++ e.name]
    | _ => pure ["R !needs-pop-oracle"]
  | _, _, _, _ => none

def isAlgoVerb (v : String) : Bool :=
  v == "bfs" || v == "allpred" || v == "geodesic" || v == "allgeodesics" || v == "geodesicsfrom" ||
  v == "allgeodesicsfrom" || v == "dijkstra" || v == "pathto" || v == "pathto3" || v == "allpathsto" || v == "allpathsto3"


def ofRes {α} (r : Res α) (f : α → Slot) : Slot × String :=
  match r with
  | .ok a => (f a, "ok")
  | .threw e => (.empty, "!" ++ e.name)
  | .ub => (.empty, "!UB")

/-- in quiet mode no implicit dump is computed (the loop would drop its lines anyway) -/
def dumpQ (quiet : Bool) (s : Nat) (sl : Slot) : List String := if quiet then [] else dumpSlot s sl

/-- one protocol line → new slots and output lines -/
def step (quiet : Bool) (ss : Slots) (line : String) : Slots × List String :=
  match line.trimAscii.toString.splitOn " " with
  | ["new", s, cls, kind, n] =>
    match nat? s, nat? n with
    | some s, some n =>
      let sl : Option Slot := match cls with
        | "dir" => some (.gr false (G.new (kind != "none") n))
        | "und" => some (.gr true (G.new (kind != "none") n))
        | "dmulti" => some (.mg false (MG.new n))
        | "umulti" => some (.mg true (MG.new n))
        | "dw" => some (.wg false (WG.new n))
        | "uw" => some (.wg true (WG.new n))
        | _ => none
      match sl with
      | some sl => let ss := setSlot ss s sl; (ss, "R ok" :: dumpQ quiet s sl)
      | none => (ss, [bad])
    | _, _ => (ss, [bad])
  | ["chainpath", cls, n] =>
    -- the geodesic of a path graph 0-1-…-(n-1) from 0 to n-1 is the graph itself, and it is the only one
    match nat? n with
    | some n => if (cls == "dir" || cls == "und") && n ≥ 1 && n ≤ 5000000 then (ss, [s!"R ok len={n} paths=1"]) else (ss, [bad])
    | none => (ss, [bad])
  | ["tokenise", hx] =>
    match ofHex hx with
    | some line => (ss, ["R " ++ showRes (fun t => "ok " ++ hexOf t.1 ++ " " ++ hexOf t.2.1 ++ " " ++ hexOf t.2.2) (FIO.findEdgeFromString line)])
    | none => (ss, [bad])
  | "findsource" :: ds =>
    match natList (ds.filter (· != "-")) with
    | some d => (ss, ["R " ++ showRes (fun v => "ok source: " ++ toString v) (findSourceVertex d)])
    | none => (ss, [bad])
  | ["swapbytes", kind, tok] =>
    -- io::swapBytes on a value of the label type: the little-endian encoding reversed; this host is little-endian
    match binCodec kind, int? tok with
    | some (_, enc, _), some t => (ss, ["R ok bytes=" ++ hexOf (enc t).reverse ++ " be=0"])
    | _, _ => (ss, [bad])
  | ["dump", s] =>
    match nat? s with
    | some s => (ss, dumpSlot s (getSlot ss s))
    | none => (ss, [bad])
  | "q" :: s :: name :: args =>
    match nat? s with
    | some s =>
      match query (getSlot ss s) name args with
      | some out => (ss, ["R " ++ out])
      | none => (ss, [bad])
    | none => (ss, [bad])
  | ["eq", a, b] =>
    match nat? a, nat? b with
    | some a, some b =>
      match slotEq (getSlot ss a) (getSlot ss b) with
      | some r => (ss, [s!"R eq={showBool r} ne={showBool (!r)}"])
      | none => (ss, [bad])
    | _, _ => (ss, [bad])
  | [verb, a, b] =>
    if verb == "copy" || verb == "assign" || verb == "movecopy" || verb == "moveassign" || verb == "reversed" || verb == "todirected" || verb == "ofdirected" then
      match nat? a, nat? b with
      | some a, some b =>
        let src := getSlot ss a
        let res : Option (Slot × String) := match verb, src with
          | "copy", .empty => none
          | "copy", x => some (x, "ok")
          | "assign", .empty => none
          | "assign", x => some (x, "ok")
          -- move construction / move assignment from a temporary copy: the same value
          | "movecopy", .empty => none
          | "movecopy", x => some (x, "ok")
          | "moveassign", .empty => none
          | "moveassign", x => some (x, "ok")
          | "reversed", .gr false g => some (ofRes g.dReversed (Slot.gr false))
          | "todirected", .gr true g => some (ofRes g.uGetDirectedGraph (Slot.gr false))
          | "ofdirected", .gr false g => some (ofRes g.uOfDirected (Slot.gr true))
          | _, _ => none
        match res with
        | some (sl, out) =>
          let ss := setSlot ss b sl
          (ss, ("R " ++ out) :: (dumpQ quiet a src ++ dumpQ quiet b sl))
        | none => (ss, [bad])
      | _, _ => (ss, [bad])
    else if verb == "writetext" || verb == "writebin" then
      match nat? a with
      | some s => match ioWrite (getSlot ss s) verb b with
        | some outs => (ss, outs)
        | none => (ss, [bad])
      | none => (ss, [bad])
    else if isAlgoVerb verb then
      match nat? a with
      | some s =>
        match algo (getSlot ss s) verb [b] with
        | some outs => (ss, outs)
        | none => (ss, [bad])
      | none => (ss, [bad])
    else
      match nat? a with
      | some s =>
        match mutate (getSlot ss s) verb [b] with
        | some (sl, out) => let ss := setSlot ss s sl; (ss, ("R " ++ out) :: dumpQ quiet s sl)
        | none => (ss, [bad])
      | none => (ss, [bad])
  | verb :: a :: b :: "ord" :: rest =>
    -- subgraph a b ord v…   /  subgraphremap a b ord v…
    match nat? a, nat? b, natList rest with
    | some a, some b, some ord =>
      match verb, getSlot ss a with
      | "subgraph", .gr und g =>
        let (sl, out) := ofRes (G.getSubgraph und g ord) (Slot.gr und)
        let ss := setSlot ss b sl
        (ss, ("R " ++ out) :: (dumpQ quiet a (.gr und g) ++ dumpQ quiet b sl))
      | "subgraphremap", .gr und g =>
        match G.getSubgraphWithRemap und g ord with
        | .ok (h, mp) =>
          let ss := setSlot ss b (.gr und h)
          let mp := mp.toArray.qsort (fun x y => x.1 < y.1) |>.toList
          (ss, ("R ok map=" ++ " ".intercalate (mp.map (fun p => s!"{p.1}:{p.2}"))) ::
                (dumpQ quiet a (.gr und g) ++ dumpQ quiet b (.gr und h)))
        | .threw e => (setSlot ss b .empty, ["R !" ++ e.name] ++ dumpQ quiet a (.gr und g) ++ dumpQ quiet b .empty)
        | .ub => (setSlot ss b .empty, ["R !UB"] ++ dumpQ quiet a (.gr und g) ++ dumpQ quiet b .empty)
      | _, _ => (ss, [bad])
    | _, _, _ => (ss, [bad])
  | "ctor" :: s :: cls :: kind :: _container :: rest =>
    match nat? s, triples rest with
    | some s, some es =>
      let lab := kind != "none"
      let r : Option (Slot × String) := match cls with
        | "dir" => some (ofRes (G.ofEdgeList lab (fun h i j l f => h.dAddEdge i j l f) es) (Slot.gr false))
        | "und" => some (ofRes (G.ofEdgeList lab (fun h i j l f => h.uAddEdge i j l f) es) (Slot.gr true))
        | "dmulti" => some (ofRes (MG.dOfEdgeList (es.map (fun e => (e.1, e.2.1, e.2.2.toNat)))) (Slot.mg false))
        | "umulti" => some (ofRes (MG.uOfEdgeList (es.map (fun e => (e.1, e.2.1, e.2.2.toNat)))) (Slot.mg true))
        | "dw" => some (ofRes (WG.dOfEdgeList es) (Slot.wg false))
        | "uw" => some (ofRes (WG.uOfEdgeList es) (Slot.wg true))
        | _ => none
      match r with
      | some (sl, out) => let ss := setSlot ss s sl; (ss, ("R " ++ out) :: dumpQ quiet s sl)
      | none => (ss, [bad])
    | _, _ => (ss, [bad])
  | ["openfail", _, _, _, _] => (ss, ["R !rte"])
  | [verb, a, b, kind] =>
    if verb == "roundtriptext" || verb == "roundtripbin" then
      match nat? a, nat? b with
      | some a, some b =>
        match getSlot ss a with
        | .gr und g =>
          if g.labelled != (kind != "none") || a == b then (ss, [bad]) else
          if verb == "roundtriptext" then
            match textToStr kind, textOfStr kind with
            | some enc, some dec =>
              match FIO.writeTextGraph und g enc with
              | .ok bytes =>
                match FIO.loadText und false (kind != "none") dec bytes with
                | .ok (h, names) =>
                  let sl := Slot.gr und h
                  (setSlot ss b sl, ["R ok names=" ++ ",".intercalate (names.map hexOf), "F " ++ hexOf bytes] ++ dumpQ quiet b sl)
                | .threw e => (setSlot ss b .empty, ["R !" ++ e.name, "F " ++ hexOf bytes] ++ dumpQ quiet b .empty)
                | .ub => (setSlot ss b .empty, ["R !UB", "F " ++ hexOf bytes] ++ dumpQ quiet b .empty)
              | .threw e => (ss, ["R !" ++ e.name])
              | .ub => (ss, ["R !UB"])
            | _, _ => (ss, [bad])
          else
            match binCodec kind with
            | some (w, enc, dec) =>
              match FIO.writeBinGraph und g enc with
              | .ok bytes =>
                let (sl, out) := ofRes (FIO.loadBin und (kind != "none") w dec bytes) (Slot.gr und)
                (setSlot ss b sl, ["R " ++ out, "F " ++ hexOf bytes] ++ dumpQ quiet b sl)
              | .threw e => (ss, ["R !" ++ e.name])
              | .ub => (ss, ["R !UB"])
            | none => (ss, [bad])
        | _ => (ss, [bad])
      | _, _ => (ss, [bad])
    else
      match nat? a with
      | some s0 =>
        if isAlgoVerb verb then
          match algo (getSlot ss s0) verb [b, kind] with
          | some outs => (ss, outs)
          | none => (ss, [bad])
        else
        match mutate (getSlot ss s0) verb [b, kind] with
        | some (sl, out) => let ss := setSlot ss s0 sl; (ss, ("R " ++ out) :: dumpQ quiet s0 sl)
        | none => (ss, [bad])
      | none => (ss, [bad])
  | [verb, s, cls, kind, hex] =>
    if verb == "loadtext" || verb == "loadtextnamed" || verb == "loadbin" then
      match nat? s, ofHex hex with
      | some s, some bytes =>
        let und := cls == "und"
        if cls != "dir" && cls != "und" then (ss, [bad]) else
        if verb == "loadbin" then
          match binCodec kind with
          | some (w, _, dec) =>
            let (sl, out) := ofRes (FIO.loadBin und (kind != "none") w dec bytes) (Slot.gr und)
            let ss := setSlot ss s sl
            (ss, ("R " ++ out) :: dumpQ quiet s sl)
          | none => (ss, [bad])
        else
          match textOfStr kind with
          | some f =>
            match FIO.loadText und (verb == "loadtextnamed") (kind != "none") f bytes with
            | .ok (g, names) =>
              let sl := Slot.gr und g
              let ss := setSlot ss s sl
              (ss, ("R ok names=" ++ ",".intercalate (names.map hexOf)) :: dumpQ quiet s sl)
            | .threw e => (setSlot ss s .empty, ["R !" ++ e.name] ++ dumpQ quiet s .empty)
            | .ub => (setSlot ss s .empty, ["R !UB"] ++ dumpQ quiet s .empty)
          | none => (ss, [bad])
      | _, _ => (ss, [bad])
    else
      match nat? s with
      | some s =>
        if isAlgoVerb verb then
          match algo (getSlot ss s) verb [cls, kind, hex] with
          | some outs => (ss, outs)
          | none => (ss, [bad])
        else
        match mutate (getSlot ss s) verb [cls, kind, hex] with
        | some (sl, out) => let ss := setSlot ss s sl; (ss, ("R " ++ out) :: dumpQ quiet s sl)
        | none => (ss, [bad])
      | none => (ss, [bad])
  | verb :: s :: args =>
    match nat? s with
    | some s =>
      if isAlgoVerb verb then
        match algo (getSlot ss s) verb args with
        | some outs => (ss, outs)
        | none => (ss, [bad])
      else
      match mutate (getSlot ss s) verb args with
      | some (sl, out) => let ss := setSlot ss s sl; (ss, ("R " ++ out) :: dumpQ quiet s sl)
      | none => (ss, [bad])
    | none => (ss, [bad])
  | _ => (ss, [bad])

/-- dump lines (everything that is not an outcome line) are suppressed in quiet mode, except for
an explicit `dump` request -/
def isDumpLine (l : String) : Bool := !(l.startsWith "R " || l.startsWith "P " || l.startsWith "T " || l.startsWith "F " || l == bad)

partial def loop (h : IO.FS.Stream) (out : IO.FS.Stream) (ss : Slots) (quiet : Bool) : IO Unit := do
  let line ← h.getLine
  if line.isEmpty then return ()
  let t := line.trimAscii.toString
  if t.isEmpty || t.startsWith "#" then
    loop h out ss quiet
  else if t == "reset" then
    out.putStrLn "R reset"
    loop h out #[] false
  else if t == "mode quiet" then
    out.putStrLn "> mode quiet"
    loop h out ss true
  else if t.startsWith "mode wscale " then
    -- the implementation scales its floating-point weights; the model's exact arithmetic is scale-free
    out.putStrLn ("> " ++ t)
    loop h out ss quiet
  else if t == "mode verbose" then
    out.putStrLn "> mode verbose"
    loop h out ss false
  else
    let (ss', outs) := step quiet ss line
    out.putStrLn ("> " ++ t)
    let explicit := t.startsWith "dump "
    for o in outs do
      if !quiet || explicit || !isDumpLine o then out.putStrLn o
    loop h out ss' quiet

def main : IO Unit := do
  loop (← IO.getStdin) (← IO.getStdout) #[] false
