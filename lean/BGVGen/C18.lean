import BGVGen.Effects
/-!
# Property C18 — concurrent read-only use of a graph is race-free and deterministic

The part of C18 that is logic:

* a const operation is a function of the shared state that leaves the state alone
  (`ConstOp σ := σ → Out`);
* threads are lists of const operations; a *schedule* is any interleaving of the threads'
  operations; running a schedule threads the shared state through every step;
* `C18_schedule_independent`: under every schedule every operation returns exactly what it returns
  in a single-threaded run, and the shared state is never changed;
* `C18_race_free`: if no operation writes shared state, no schedule contains two conflicting
  accesses (a conflict needs at least one write).

That the C++ const entry points really are such functions is the hypothesis; it is discharged
per run by `decide` over the effect table regenerated from /repo's AST (`BGVGen/Effects.lean`):
no `mutable` field, no cast that removes `const`, no non-const function-local `static`, no
non-const namespace-scope variable in any function of the headers (the compiler already rejects
every other write through a `const` access path).  Not covered: data races inside libstdc++ const
member functions (trusted per [res.on.data.races]) and real hardware schedules — the TSan reader
harness samples those.
-/
namespace BGVGen

/-- a const operation on shared state `σ` returning an observation -/
abbrev ConstOp (σ Out : Type) := σ → Out

/-- an event of a schedule: thread id and the operation it performs next -/
structure Ev (σ Out : Type) where
  tid : Nat
  op : ConstOp σ Out

/-- running a schedule: const operations observe the state and leave it alone -/
def runSched {σ Out : Type} (s : σ) : List (Ev σ Out) → σ × List (Nat × Out)
  | [] => (s, [])
  | e :: es => let r := runSched s es; (r.1, (e.tid, e.op s) :: r.2)

/-- the per-thread projection of a schedule -/
def thread {σ Out : Type} (t : Nat) (sched : List (Ev σ Out)) : List (ConstOp σ Out) :=
  (sched.filter (fun e => e.tid == t)).map (·.op)

/-- **schedule independence**: in every interleaving each thread observes exactly the results of
running its own operations alone on the initial state, and the state is unchanged at the end. -/
theorem C18_schedule_independent {σ Out : Type} (s : σ) (sched : List (Ev σ Out)) (t : Nat) :
    (runSched s sched).1 = s ∧
    ((runSched s sched).2.filter (fun p => p.1 == t)).map (·.2) = (thread t sched).map (fun op => op s) := by
  induction sched with
  | nil => exact ⟨rfl, rfl⟩
  | cons e es ih =>
    obtain ⟨h1, h2⟩ := ih
    refine ⟨h1, ?_⟩
    simp only [runSched, thread, List.filter_cons]
    by_cases he : (e.tid == t) = true
    · simp only [he, if_true, List.map_cons]
      congr 1
    · simp only [he, Bool.false_eq_true, if_false]
      exact h2

/-- an access to a shared location -/
structure Access where
  tid : Nat
  loc : String
  isWrite : Bool

def conflict (a b : Access) : Bool := a.tid != b.tid && a.loc == b.loc && (a.isWrite || b.isWrite)

/-- **race freedom**: a trace without writes contains no conflicting pair, whatever the schedule -/
theorem C18_race_free (trace : List Access) (h : trace.all (fun a => !a.isWrite) = true) :
    ∀ a ∈ trace, ∀ b ∈ trace, conflict a b = false := by
  intro a ha b hb
  simp only [List.all_eq_true, Bool.not_eq_true'] at h
  simp [conflict, h a ha, h b hb]

/-! ### the hypothesis, re-decided on every run over the regenerated effect table -/
def constWriters : List Fn := functions.filter (fun f => f.isConstEntry && !f.writes.isEmpty)
def anyWriters : List Fn := functions.filter (fun f => !f.writes.isEmpty)

/-- no const entry point (const member function, or free function taking its graphs by const
reference) contains a construct that can write shared state -/
theorem C18_const_entry_points_write_nothing : constWriters = [] := by decide +kernel

/-- stronger: no function of the headers at all contains such a construct, so nothing a const entry
point calls can write shared state behind the type system's back either -/
theorem C18_no_hidden_writer_anywhere : anyWriters = [] := by decide +kernel

/-- the table is not vacuous: it lists const entry points of every class -/
theorem C18_table_nonempty : (functions.filter (·.isConstEntry)).length ≥ 50 := by decide +kernel

end BGVGen
