import BGVGen.Headers
/-!
# Property C20 (third sentence) — every header can be included on its own, more than once and
from several translation units of one program.

Model of the preprocessor and the linker, at the granularity that matters here:
* entering a header whose include guard is already defined contributes nothing;
  otherwise it contributes its own definitions (its nested `#include`s are just further
  "enter header" events at that point, so a translation unit is modelled as an *arbitrary*
  sequence of enter-events — this over-approximates every real include structure);
* within a translation unit no entity may be defined twice;
* across translation units no entity with strong external linkage may be defined twice
  (types, templates, inline and internal-linkage entities may).

`C20_includes` proves both for every program, from three facts about the header table that are
re-established by `decide` on every run over the table regenerated from /repo
(`BGVGen/Headers.lean`): every header is guarded, no definition is strong, definition keys are
pairwise distinct.
-/
namespace BGVGen

def lookup (hs : List Header) (n : String) : Option Header := hs.find? (fun h => h.name == n)

/-- definitions contributed by processing the enter-events `evs` with guards `seen` already defined -/
def preprocess (hs : List Header) : List String → List String → List (String × Linkage)
  | [], _ => []
  | n :: evs, seen =>
    match lookup hs n with
    | none => preprocess hs evs seen                       -- not one of ours
    | some h =>
      if h.guarded && seen.contains n then preprocess hs evs seen
      else h.defs ++ preprocess hs evs (if h.guarded then n :: seen else seen)

def allGuarded (hs : List Header) : Bool := hs.all (·.guarded)
def noStrong (hs : List Header) : Bool := hs.all (fun h => h.defs.all (fun d => d.2 != .strong))
def allDefs (hs : List Header) : List String := hs.flatMap (fun h => h.defs.map (·.1))
def namesDistinct (hs : List Header) : Bool := (hs.map (·.name)).Nodup
def defsDistinct (hs : List Header) : Bool := (allDefs hs).Nodup

/-- headers entered (not skipped) while processing `evs` -/
def entered (hs : List Header) : List String → List String → List String
  | [], _ => []
  | n :: evs, seen =>
    match lookup hs n with
    | none => entered hs evs seen
    | some h =>
      if h.guarded && seen.contains n then entered hs evs seen
      else n :: entered hs evs (if h.guarded then n :: seen else seen)

theorem entered_not_seen (hs : List Header) (hg : allGuarded hs = true) :
    ∀ evs seen, (∀ x ∈ entered hs evs seen, x ∉ seen) ∧ (entered hs evs seen).Nodup := by
  intro evs
  induction evs with
  | nil => intro seen; simp [entered]
  | cons n evs ih =>
    intro seen
    simp only [entered]
    cases hl : lookup hs n with
    | none => exact ih seen
    | some h =>
      have hmem : h ∈ hs := List.mem_of_find?_eq_some hl
      have hgd : h.guarded = true := by
        simp only [allGuarded, List.all_eq_true] at hg; exact hg h hmem
      simp only [hgd, Bool.true_and, if_true]
      by_cases hs' : seen.contains n = true
      · simp only [hs', if_true]; exact ih seen
      · simp only [hs', Bool.false_eq_true, if_false]
        obtain ⟨i1, i2⟩ := ih (n :: seen)
        refine ⟨?_, ?_⟩
        · intro x hx
          rcases List.mem_cons.1 hx with rfl | hx
          · simpa using hs'
          · intro hxs; exact i1 x hx (List.mem_cons_of_mem _ hxs)
        · refine List.nodup_cons.2 ⟨?_, i2⟩
          intro hn; exact i1 n hn (List.mem_cons_self)

theorem preprocess_eq (hs : List Header) : ∀ evs seen,
    preprocess hs evs seen = (entered hs evs seen).flatMap (fun n => match lookup hs n with | some h => h.defs | none => []) := by
  intro evs
  induction evs with
  | nil => intro seen; simp [preprocess, entered]
  | cons n evs ih =>
    intro seen
    simp only [preprocess, entered]
    cases hl : lookup hs n with
    | none => exact ih seen
    | some h =>
      by_cases hc : (h.guarded && seen.contains n) = true
      · simp only [hc, if_true]; exact ih seen
      · simp only [hc, Bool.false_eq_true, if_false, List.flatMap_cons, hl]
        rw [ih]

theorem lookup_name (hs : List Header) (n : String) (h : Header) (hl : lookup hs n = some h) : h.name = n := by
  have := List.find?_some hl
  simpa using this

theorem pairwise_mem_ne {α : Type} {R : α → α → Prop} (hsym : ∀ a b, R a b → R b a) :
    ∀ {l : List α}, l.Pairwise R → ∀ a ∈ l, ∀ b ∈ l, a ≠ b → R a b := by
  intro l hl
  induction hl with
  | nil => intro a ha; simp at ha
  | @cons x l hx _ ih =>
    intro a ha b hb hab
    rcases List.mem_cons.1 ha with hax | ha'
    · rcases List.mem_cons.1 hb with hbx | hb'
      · exact absurd (hax.trans hbx.symm) hab
      · rw [hax]; exact hx b hb'
    · rcases List.mem_cons.1 hb with hbx | hb'
      · rw [hbx]; exact hsym _ _ (hx a ha')
      · exact ih a ha' b hb' hab

/-- definition keys of distinct headers are disjoint and each header's keys are distinct -/
theorem defs_nodup_of_entered (hs : List Header) (hd : defsDistinct hs = true) (hn : namesDistinct hs = true)
    (ns : List String) (hns : ns.Nodup) :
    ((ns.flatMap (fun n => match lookup hs n with | some h => h.defs | none => [])).map (·.1)).Nodup := by
  have hd' : (allDefs hs).Nodup := by simpa [defsDistinct] using hd
  have hn' : (hs.map (·.name)).Nodup := by simpa [namesDistinct] using hn
  -- the headers looked up by a duplicate-free list of names form a duplicate-free sublist-like family
  simp only [List.map_flatMap]
  rw [List.Nodup, List.pairwise_flatMap]
  simp only [allDefs, List.Nodup, List.pairwise_flatMap] at hd'
  obtain ⟨hd1, hd2⟩ := hd'
  constructor
  · intro n _
    cases hl : lookup hs n with
    | none => simp
    | some h => exact hd1 h (List.mem_of_find?_eq_some hl)
  · refine hns.imp_of_mem ?_
    intro a b ha hb hab x hx y hy
    cases hla : lookup hs a with
    | none => simp [hla] at hx
    | some h1 =>
      cases hlb : lookup hs b with
      | none => simp [hlb] at hy
      | some h2 =>
        simp only [hla] at hx
        simp only [hlb] at hy
        have hm1 := List.mem_of_find?_eq_some hla
        have hm2 := List.mem_of_find?_eq_some hlb
        have hne : h1 ≠ h2 := by
          intro he
          apply hab
          rw [← lookup_name hs a h1 hla, ← lookup_name hs b h2 hlb, he]
        exact pairwise_mem_ne (fun p q hpq x hx y hy hxy => hpq y hy x hx hxy.symm) hd2 h1 hm1 h2 hm2 hne x hx y hy

/-- **C20, includes.** With every header guarded, no strong definition and distinct definition
keys: for *every* translation unit (any sequence of header inclusions, any multiplicity) no entity
is defined twice, and for every program (any list of such translation units) no entity with strong
linkage is defined at all — so the linker can never see two strong definitions. -/
theorem C20_includes (hs : List Header) (hg : allGuarded hs = true) (hst : noStrong hs = true)
    (hd : defsDistinct hs = true) (hn : namesDistinct hs = true) :
    (∀ tu : List String, ((preprocess hs tu []).map (·.1)).Nodup) ∧
    (∀ program : List (List String), ∀ tu ∈ program, ∀ d ∈ preprocess hs tu [], d.2 ≠ .strong) := by
  constructor
  · intro tu
    rw [preprocess_eq]
    exact defs_nodup_of_entered hs hd hn _ (entered_not_seen hs hg tu []).2
  · intro program tu _ d hdm
    rw [preprocess_eq] at hdm
    simp only [List.mem_flatMap] at hdm
    obtain ⟨n, _, hdn⟩ := hdm
    cases hl : lookup hs n with
    | none => simp [hl] at hdn
    | some h =>
      simp only [hl] at hdn
      have hm := List.mem_of_find?_eq_some hl
      simp only [noStrong, List.all_eq_true] at hst
      have := hst h hm d hdn
      simpa using this

/-! ### the facts about /repo's headers, re-decided on every run -/
theorem C20_headers_guarded : allGuarded headers = true := by decide +kernel
theorem C20_no_strong_definition : noStrong headers = true := by decide +kernel
theorem C20_definition_keys_distinct : defsDistinct headers = true ∧ namesDistinct headers = true := by decide +kernel
theorem C20_clang_parsed : clangParsedOk = true := by decide

/-- the instance for /repo as it is now -/
theorem C20_repo_includes :
    (∀ tu : List String, ((preprocess headers tu []).map (·.1)).Nodup) ∧
    (∀ program : List (List String), ∀ tu ∈ program, ∀ d ∈ preprocess headers tu [], d.2 ≠ .strong) :=
  C20_includes headers C20_headers_guarded C20_no_strong_definition
    C20_definition_keys_distinct.1 C20_definition_keys_distinct.2

end BGVGen
