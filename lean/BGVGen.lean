import BGVGen.Headers
import BGVGen.Effects
import BGVGen.EntryPoints
import BGVGen.C20
import BGVGen.C18
