"""props.py — per-property workloads (what the correspondence drives) and projections
(what the property itself constrains).  See DESIGN.md §6.
"""
import itertools
import random

from . import gen
from . import wide
from .gen import SIMPLE, MULTI, WEIGHTED, ALL_CLASSES, KINDS_ALL, KINDS_LAB

Q, T = "quick", "thorough"


def scale(tier, q, t):
    return q if tier == Q else t


# ------------------------------------------------------------------ helpers
def rand_edges(rng, n, density=None, loops=True):
    if n == 0:
        return []
    d = density if density is not None else rng.choice([0.0, 0.15, 0.3, 0.5, 0.8])
    es = [(i, j) for i in range(n) for j in range(n) if (loops or i != j) and rng.random() < d]
    rng.shuffle(es)
    return es


def und_canon(es):
    seen, out = set(), []
    for (i, j) in es:
        k = (min(i, j), max(i, j))
        if k not in seen:
            seen.add(k)
            out.append((i, j))
    return out


def add_op(cls, slot, i, j, val, force=0):
    if cls in SIMPLE:
        return f"addEdge {slot} {i} {j} {val} {force}"
    if cls in MULTI:
        return f"addMultiedge {slot} {i} {j} {val} {force}"
    return f"addEdge {slot} {i} {j} {val} {force}"


def val_for(rng, cls, kind):
    if cls in SIMPLE:
        return gen.label_tok(rng, kind)
    if cls in MULTI:
        return rng.randint(1, 4)
    return rng.randint(-8, 16)


def kinds_for(cls, tier, rng, labelled_only=False):
    if cls not in SIMPLE:
        return ["-"]
    ks = KINDS_LAB if labelled_only else KINDS_ALL
    return ks


# ------------------------------------------------------------------ C01..C05: state machines
def wl_statemachine(classes, tier, rng, labelled_only=False, exh=True, n_rand=(2500, 60000), **kw):
    # exhaustive small scope
    if exh:
        for cls in classes:
            for kind in (["none", "int"] if cls in SIMPLE and not labelled_only else (["int", "str"] if cls in SIMPLE else ["-"])):
                for n in scale(tier, [1, 2], [1, 2, 3]):
                    if cls in SIMPLE:
                        al = gen.alphabet_simple(cls, kind, n, labels=(1, 2), setlabel=kw.get("setlabel", True))
                    elif cls in MULTI:
                        al = gen.alphabet_multi(cls, n, mults=(0, 1, 2))
                    else:
                        al = gen.alphabet_weighted(cls, n, ws=(-4, 0, 1, 8))
                    kmax = scale(tier, 2, 3)
                    for k in range(1, kmax + 1):
                        lim = scale(tier, 1500, 40000) if len(al) ** k > scale(tier, 1500, 40000) else None
                        yield from gen.exhaustive(cls, kind, n, al, k, limit=lim, rng=rng)
    # wide graphs (hubs, neighbours 8/16/32/64 apart, sizes around 32 and 64)
    yield from wide.statemachine(classes, scale(tier, 24, 400), rng,
                                 lambda cls: kinds_for(cls, tier, rng, labelled_only), **kw)
    # random
    total = scale(tier, *n_rand)
    for _ in range(total):
        cls = rng.choice(classes)
        kind = rng.choice(kinds_for(cls, tier, rng, labelled_only))
        meta, ops = gen.random_history(rng, cls, kind, nmax=scale(tier, 6, 10), lmax=scale(tier, 25, 60), **kw)
        if rng.random() < 0.2:
            # the state survives copying and moving: copy / move construction, move assignment over a populated
            # graph, the `g = Graph(n)` reset idiom, and the original keeps working afterwards
            other = gen.random_history(rng, cls, kind, nmax=4, lmax=6, **kw)[1]
            ops += [l.replace(" 0", " 1", 1) if not l.startswith("new") else l.replace("new 0", "new 1", 1) for l in other]
            ops += ["movecopy 0 2", "dump 2", "moveassign 0 1", "dump 1", gen.new_line(3, cls, kind, meta["n"]), "moveassign 3 2", "dump 2", "dump 0"]
            if meta["n"] > 0:
                ops.append(add_op(cls, 0, 0, 0, val_for(rng, cls, kind)))
            ops += ["dump 0", "dump 1"]
            meta["len"] = len(ops)
        yield (meta, ops)


def wl_C01(tier, rng):
    yield from wl_statemachine(["dir"], tier, rng, setlabel=False)


def wl_C02(tier, rng):
    yield from wl_statemachine(["und"], tier, rng, setlabel=False)


def wl_C03(tier, rng):
    yield from wl_statemachine(["dir", "und"], tier, rng, labelled_only=True, setlabel=True)
    yield from _c03_ctor_family(tier, rng)
    # hasEdge(i,j,label) queries on random states
    for _ in range(scale(tier, 300, 5000)):
        cls = rng.choice(SIMPLE)
        kind = rng.choice(KINDS_LAB)
        meta, ops = gen.random_history(rng, cls, kind, nmax=5, lmax=15)
        n = meta["n"]
        for _ in range(6):
            if n == 0:
                break
            i, j = gen.pick_pair(rng, n)
            ops.append(f"q 0 hasEdgeL {i} {j} {gen.label_tok(rng, kind)}")
            ops.append(f"q 0 getEdgeLabel {i} {j} {rng.choice([0, 1, 'd'])}")
        yield (meta, ops)


def _c03_ctor_family(tier, rng):
    """edge creation through the container constructors: a pair listed again (other orientation when undirected,
    self-loops too) with another label keeps the label it was created with, exactly as repeated addEdge does"""
    for _ in range(scale(tier, 200, 4000)):
        cls = rng.choice(["dir", "und"])
        kind = rng.choice(KINDS_LAB)
        n = rng.randint(1, 6)
        trip, pairs = [], []
        for _ in range(rng.randint(1, 8)):
            if pairs and rng.random() < 0.45:
                i, j = rng.choice(pairs)
                if cls == "und" and rng.random() < 0.5:
                    i, j = j, i
            else:
                i, j = gen.pick_pair(rng, n)
            pairs.append((i, j))
            trip += [str(i), str(j), str(gen.label_tok(rng, kind))]
        ops = [f"ctor 0 {cls} {kind} {rng.choice(['vector', 'list', 'deque', 'flist'])} " + " ".join(trip)]
        for (i, j) in pairs[:5]:
            ops.append(f"q 0 getEdgeLabel {j} {i} {rng.choice([0, 1, 'd'])}")
            ops.append(f"q 0 hasEdgeL {i} {j} {gen.label_tok(rng, kind)}")
        yield ({"cls": cls, "kind": kind, "n": n, "len": len(ops), "family": "ctor-repeats"}, ops)


def big_multiplicity_family(tier, rng):
    """multiplicities in the upper half of the 32-bit range (valid: each stays below 2^32): any
    arithmetic done in a narrower or signed type shows up as a wrong counter or a sanitizer report"""
    big = [2147483647, 2147483648, 2147483649, 4294967295, 4294967294]
    for cls in MULTI:
        for rep in range(scale(tier, 8, 60)):
            n = 3
            ops = [gen.new_line(0, cls, "-", n)]
            i, j = gen.pick_pair(rng, n)
            a, b = rng.sample(big, 2)
            ops += [f"addMultiedge 0 {i} {j} {a} 0", f"setEdgeMultiplicity 0 {i} {j} {b}",
                    f"setEdgeMultiplicity 0 {j if cls == 'umulti' else i} {i if cls == 'umulti' else j} {a}",
                    f"removeMultiedge 0 {i} {j} {min(a, 2147483648)}"]
            c, d = gen.pick_pair(rng, n)
            ops += [f"addMultiedge 0 {c} {d} 1 0", f"setEdgeMultiplicity 0 {c} {d} {rng.choice(big)}",
                    f"q 0 getEdgeMultiplicity {c} {d}", f"setEdgeMultiplicity 0 {c} {d} 1",
                    "dump 0"]
            # a small removal from a huge multiplicity, and a huge removal from a small one (differences >= 2^31)
            e, f = gen.pick_pair(rng, n)
            ops += [f"setEdgeMultiplicity 0 {e} {f} {rng.choice([3000000000, 4294967295, 2147483649])}", f"removeEdge 0 {e} {f}",
                    f"q 0 getEdgeMultiplicity {e} {f}", f"removeMultiedge 0 {e} {f} {rng.choice([1, 2, 7])}", "dump 0",
                    f"setEdgeMultiplicity 0 {e} {f} {rng.choice([1, 2, 3])}", f"removeMultiedge 0 {e} {f} {rng.choice([4000000000, 2147483650, 4294967295])}",
                    f"q 0 hasEdge {e} {f}", "dump 0",
                    f"removeVertexFromEdgeList 0 {rng.randrange(n)}", "dump 0"]
            yield ({"cls": cls, "kind": "-", "n": n, "len": len(ops), "family": "big-mult"}, ops)


def wl_C04(tier, rng):
    yield from big_multiplicity_family(tier, rng)
    yield from wl_statemachine(MULTI, tier, rng)


def pow2_scale_family(tier, rng, count):
    """weighted histories whose weights are multiplied by 2^-70 or 2^70 (`mode wscale`): exact in binary floating
    point, but far below / above 1, where an absolute tolerance or a narrowing goes wrong"""
    for _ in range(count):
        cls = rng.choice(WEIGHTED)
        a, b = rng.choice([(1, 2 ** 70), (2 ** 70, 1), (1, 2 ** 60)])
        meta, ops = gen.random_history(rng, cls, "-", nmax=5, lmax=25)
        # (addReciprocalEdge of the weighted class creates edges of weight 1 / 0 itself, which no scale applies to)
        ops = ops[:1] + [f"mode wscale {a} {b}"] + [l for l in ops[1:] if not l.startswith("addReciprocalEdge")]
        meta["family"] = "pow2-scale"
        meta["len"] = len(ops)
        yield (meta, ops)


def wl_C05(tier, rng):
    yield from pow2_scale_family(tier, rng, scale(tier, 150, 3000))
    yield from wl_statemachine(WEIGHTED, tier, rng)


# ------------------------------------------------------------------ C06: equality
def target_graph(rng, cls, kind, nmax=5):
    n = rng.choice([0, 1, 2, 3, 4, 5][: nmax + 1])
    es = rand_edges(rng, n)
    if cls in ("und", "umulti", "uw"):
        es = und_canon(es)
    vals = {e: val_for(rng, cls, kind) for e in es}
    return n, es, vals


def linearise(rng, cls, kind, slot, n, es, vals, detours=True):
    """one history denoting (n, es, vals): random order, random orientation (undirected),
    detours through edges / labels that are removed / overwritten again"""
    und = cls in ("und", "umulti", "uw")
    n0 = rng.randint(0, n) if rng.random() < 0.3 else n
    ops = [gen.new_line(slot, cls, kind, n0)]
    if n0 < n:
        ops.append(f"resize {slot} {n}")
    order = list(es)
    rng.shuffle(order)
    pending_rm = []
    for e in order:
        i, j = e
        if und and rng.random() < 0.5:
            i, j = j, i
        if detours and n > 0 and rng.random() < 0.3:
            # detour: an extra edge that is removed later
            a, b = gen.pick_pair(rng, n)
            key = (min(a, b), max(a, b)) if und else (a, b)
            if key not in {((min(x, y), max(x, y)) if und else (x, y)) for (x, y) in es}:
                ops.append(add_op(cls, slot, a, b, val_for(rng, cls, kind)))
                pending_rm.append((a, b))
        if detours and rng.random() < 0.3:
            # wrong value first, corrected afterwards
            ops.append(add_op(cls, slot, i, j, val_for(rng, cls, kind)))
            if cls in SIMPLE:
                if kind != "none":
                    ops.append(f"setEdgeLabel {slot} {i} {j} {vals[e]} 0")
            elif cls in MULTI:
                ops.append(f"setEdgeMultiplicity {slot} {i} {j} {vals[e]}")
            else:
                ops.append(f"setEdgeWeight {slot} {i} {j} {vals[e]}")
        else:
            ops.append(add_op(cls, slot, i, j, vals[e]))
    rng.shuffle(pending_rm)
    for (a, b) in pending_rm:
        if und and rng.random() < 0.5:
            a, b = b, a
        if cls in MULTI:
            ops.append(f"setEdgeMultiplicity {slot} {a} {b} 0" if rng.random() < .5 else f"removeMultiedge {slot} {a} {b} 9")
        else:
            ops.append(f"removeEdge {slot} {a} {b}")
    return ops


def all_pairs_small(tier, rng):
    """every ordered pair of graphs on n <= 2 vertices (all classes, one value per edge), plus
    sampled pairs on 3 vertices with equal edge counts (the case operator=='s counters cannot decide)"""
    for cls in ALL_CLASSES:
        kind = "none" if cls in SIMPLE else "-"
        und = cls in ("und", "umulti", "uw")
        for n in (1, 2, 3):
            pairs = [(i, j) for i in range(n) for j in range(n) if (not und or i <= j)]
            graphs = []
            for mask in range(1 << len(pairs)):
                graphs.append([p for b, p in enumerate(pairs) if mask >> b & 1])
            if n <= 2:
                todo = [(x, y) for x in graphs for y in graphs]
            else:
                todo = []
                for _ in range(scale(tier, 300, 6000)):
                    x = rng.choice(graphs)
                    same = [y for y in graphs if len(y) == len(x)]
                    todo.append((x, rng.choice(same)))
            for (x, y) in todo:
                ops = [gen.new_line(0, cls, kind, n)] + [add_op(cls, 0, i, j, 1) for (i, j) in x]
                ops += [gen.new_line(1, cls, kind, n)] + [add_op(cls, 1, i, j, 1) for (i, j) in y]
                ops += ["eq 0 1", "eq 1 0"]
                yield ({"cls": cls, "kind": kind, "n": n, "len": len(ops), "exh": n <= 2}, ops)


def huge_weight_family(tier, rng):
    """weighted graphs whose running total is NOT exactly representable (weights of very different
    magnitude, inserted in different orders, or added and removed again): `==` must still depend on
    the edges and their weights only.  Quiet mode: the totals themselves (rounded in the
    implementation, exact in the model) are not compared — only the verdicts of `==`."""
    big = 4 * 10 ** 20   # quarter units: 1e20
    for cls in WEIGHTED:
        for rep in range(scale(tier, 6, 40)):
            n = rng.randint(3, 5)
            pairs = []
            while len(pairs) < 3:
                p = gen.pick_pair(rng, n, loops=0.1)
                key = (min(p), max(p)) if cls == "uw" else p
                if key not in [((min(q), max(q)) if cls == "uw" else q) for q in pairs]:
                    pairs.append(p)
            ws = [big, 4, -big]
            rng.shuffle(ws)
            es = list(zip(pairs, ws))
            order2 = es[:]
            rng.shuffle(order2)
            ops = ["mode quiet", gen.new_line(0, cls, "-", n), gen.new_line(1, cls, "-", n)]
            for ((i, j), w) in es:
                ops.append(f"addEdge 0 {i} {j} {w} 0")
            for ((i, j), w) in order2:
                ops.append(f"addEdge 1 {i} {j} {w} 0")
            ops += ["eq 0 1", "eq 1 0"]
            # a transient huge edge in graph 1 only
            c, d = gen.pick_pair(rng, n)
            ops += [f"addEdge 1 {c} {d} {big * 1000} 0"]
            if (c, d) not in pairs and ((d, c) not in pairs or cls != "uw"):
                ops += [f"removeEdge 1 {c} {d}", "eq 0 1", "eq 1 0"]
            yield ({"cls": cls, "kind": "-", "n": n, "len": len(ops), "family": "huge-weights"}, ops)


def wl_C06(tier, rng):
    yield from all_pairs_small(tier, rng)
    yield from huge_weight_family(tier, rng)
    yield from wide.equality(scale(tier, 60, 1200), rng, ALL_CLASSES,
                             lambda cls: KINDS_ALL if cls in SIMPLE else ["-"])
    for _ in range(scale(tier, 1500, 30000)):
        cls = rng.choice(ALL_CLASSES)
        kind = rng.choice(KINDS_ALL) if cls in SIMPLE else "-"
        n, es, vals = target_graph(rng, cls, kind)
        ops = linearise(rng, cls, kind, 0, n, es, vals) + linearise(rng, cls, kind, 1, n, es, vals)
        if rng.random() < 0.4:
            # calls the library rejects (out-of-range vertex) must leave nothing behind that `==` can see
            rej = [c for c in invalid_calls(cls, kind, n, rng, full=True, okv=rng.randrange(n) if n else 0)
                   if c.split()[0] in ("addEdge", "addMultiedge", "addReciprocalEdge", "addReciprocalMultiedge", "removeEdge",
                                       "removeMultiedge", "setEdgeLabel", "setEdgeMultiplicity", "setEdgeWeight",
                                       "removeVertexFromEdgeList", "q")]
            rng.shuffle(rej)
            ops += rej[:8]
        ops += ["eq 0 1", "eq 1 0", "eq 0 0"]
        # a variant differing in exactly one edge / label / size
        ops.append("copy 1 2")
        mode = rng.choice(["edge+", "edge-", "label", "size", "clear", "move", "move", "move"])
        und = cls in ("und", "umulti", "uw")
        if mode == "edge+" and n > 0:
            a, b = gen.pick_pair(rng, n)
            ops.append(add_op(cls, 2, a, b, val_for(rng, cls, kind)))
        elif mode == "edge-" and es:
            a, b = rng.choice(es)
            ops.append(f"removeEdge 2 {a} {b}")
        elif mode == "label" and es:
            a, b = rng.choice(es)
            if und and rng.random() < .5:
                a, b = b, a
            if cls in SIMPLE and kind != "none":
                ops.append(f"setEdgeLabel 2 {a} {b} {val_for(rng, cls, kind)} 0")
            elif cls in MULTI:
                ops.append(f"setEdgeMultiplicity 2 {a} {b} {rng.randint(1, 5)}")
            elif cls in WEIGHTED:
                ops.append(f"setEdgeWeight 2 {a} {b} {rng.randint(-8, 16)}")
        elif mode == "move" and es and n > 0:
            # same size, same edge count, one edge moved elsewhere (biased to the last vertex)
            a, b = rng.choice(es) if rng.random() < .5 else max(es)
            if cls in MULTI:
                ops.append(f"setEdgeMultiplicity 2 {a} {b} 0")
            else:
                ops.append(f"removeEdge 2 {a} {b}")
            for _ in range(8):
                c, d = (n - 1, rng.randrange(n)) if rng.random() < .5 else gen.pick_pair(rng, n)
                key = (min(c, d), max(c, d)) if und else (c, d)
                if key not in {((min(x, y), max(x, y)) if und else (x, y)) for (x, y) in es}:
                    ops.append(add_op(cls, 2, c, d, vals[(a, b)]))
                    break
        elif mode == "size":
            ops.append(f"resize 2 {n + 1}")
        elif mode == "clear":
            ops += ["clearEdges 2", gen.new_line(3, cls, kind, n), "eq 2 3", "eq 3 2"]
        ops += ["eq 0 2", "eq 2 0", "eq 1 2", "dump 1"]
        # assignment independence
        ops += ["assign 0 4", "eq 0 4", "assign 4 4", "eq 0 4", "eq 4 4"]   # incl. self-assignment
        # move construction, move assignment over a populated graph, and the `g = Graph(n)` reset idiom
        ops += ["movecopy 0 5", "eq 0 5", "moveassign 1 2", "eq 1 2", "dump 2", gen.new_line(6, cls, kind, n), "moveassign 6 5", "dump 5", "eq 5 6"]
        if n > 0:
            a, b = gen.pick_pair(rng, n)
            ops += [add_op(cls, 0, a, b, val_for(rng, cls, kind)), "dump 4", "eq 0 4", "eq 1 4"]
        yield ({"cls": cls, "kind": kind, "n": n, "len": len(ops)}, ops)


# ------------------------------------------------------------------ C07: invalid calls
def invalid_calls(cls, kind, n, rng, full=True, okv=0):
    """every entry point x argument position x bad value x flags (slot 0 has n vertices)"""
    bad = [n, n + 1, 4294967295]
    ok = [okv] if n > 0 else [n]  # when n == 0 every index is bad
    calls = []

    def two(fmt, flagsets):
        for bv in bad:
            for (x, y) in ((bv, ok[0]), (ok[0], bv), (bv, bv)):
                for fl in flagsets:
                    calls.append(fmt.format(i=x, j=y, f=fl))
    if cls in SIMPLE:
        two("addEdge 0 {i} {j} 5 {f}", [0, 1, "d"])
        if cls == "dir":
            two("addReciprocalEdge 0 {i} {j} 5 {f}", [0, 1, "d"])
        two("removeEdge 0 {i} {j}", [0])
        two("q 0 hasEdge {i} {j}", [0])
        two("q 0 hasEdgeL {i} {j} 5", [0])
        two("q 0 getEdgeLabel {i} {j} {f}", [0, 1, "d"])
        if kind != "none":
            two("setEdgeLabel 0 {i} {j} 5 {f}", [0, 1, "d"])
    elif cls in MULTI:
        two("addEdge 0 {i} {j} {f}", [0, 1, "d"])
        two("addMultiedge 0 {i} {j} 2 {f}", [0, 1, "d"])
        two("addMultiedge 0 {i} {j} 0 {f}", [0])
        if cls == "dmulti":
            two("addReciprocalEdge 0 {i} {j} {f}", [0, 1])
            two("addReciprocalMultiedge 0 {i} {j} 2 {f}", [0, 1])
        two("removeEdge 0 {i} {j}", [0])
        two("removeMultiedge 0 {i} {j} 1", [0])
        two("setEdgeMultiplicity 0 {i} {j} {f}", [0, 2])
        two("q 0 hasEdge {i} {j}", [0])
        two("q 0 getEdgeMultiplicity {i} {j}", [0])
    else:
        two("addEdge 0 {i} {j} 6 {f}", [0, 1, "d"])
        if cls == "dw":
            two("addReciprocalEdge 0 {i} {j} {f}", [0, 1])
        two("removeEdge 0 {i} {j}", [0])
        two("setEdgeWeight 0 {i} {j} 6", [0])
        two("q 0 hasEdge {i} {j}", [0])
        two("q 0 getEdgeWeight {i} {j} {f}", [0, 1, "d"])
    for bv in bad:
        calls.append(f"removeVertexFromEdgeList 0 {bv}")
        calls.append(f"q 0 getOutNeighbours {bv}")
        if cls in ("dir", "dmulti", "dw"):
            calls.append(f"q 0 getInDegree {bv}")
            calls.append(f"q 0 getOutDegree {bv}")
        else:
            calls.append(f"q 0 getDegree {bv} 0")
            calls.append(f"q 0 getDegree {bv} 1")
            calls.append(f"q 0 getDegree {bv} d")
            if cls == "und":
                calls.append(f"q 0 getNeighbours {bv}")
    if n > 0:
        calls.append(f"resize 0 {n - 1}")
        calls.append("resize 0 0")
    if cls in SIMPLE:
        for bv in bad:
            calls += [f"bfs 0 {bv}", f"allpred 0 {bv}", f"geodesicsfrom 0 {bv}", f"allgeodesicsfrom 0 {bv}",
                      f"geodesic 0 {bv} {ok[0]}", f"geodesic 0 {ok[0]} {bv}", f"geodesic 0 {bv} {bv}",
                      f"allgeodesics 0 {bv} {ok[0]}", f"allgeodesics 0 {ok[0]} {bv}", f"allgeodesics 0 {bv} {bv}",
                      f"pathto 0 {ok[0]} {bv} {ok[0]}", f"pathto 0 {ok[0]} {ok[0]} {bv}", f"pathto 0 {ok[0]} {bv} {bv}", f"pathto 0 {bv} {ok[0]} {ok[0]}",
                      f"pathto3 0 {ok[0]} {bv}", f"pathto3 0 {bv} {ok[0]}",
                      f"allpathsto 0 {ok[0]} {bv} {ok[0]}", f"allpathsto 0 {ok[0]} {ok[0]} {bv}", f"allpathsto 0 {ok[0]} {bv} {bv}", f"allpathsto 0 {bv} {ok[0]} {ok[0]}",
                      f"allpathsto3 0 {ok[0]} {bv}", f"allpathsto3 0 {bv} {ok[0]}",
                      f"subgraph 0 5 S {bv}", f"subgraphremap 0 6 S {bv}"]
            if n > 0:
                calls += [f"subgraph 0 5 S 0 {bv}", f"subgraphremap 0 6 S {bv} 0"]
    if cls in WEIGHTED:
        for bv in bad:
            calls.append(f"dijkstra 0 {bv}")
    if not full:
        rng.shuffle(calls)
        calls = calls[:12]
    return calls


def missing_edge_calls(cls, kind, n, rng):
    """invalid_argument family: needs a pair that is not an edge — uses queries on all pairs"""
    calls = []
    if n == 0:
        return calls
    for _ in range(4):
        i, j = gen.pick_pair(rng, n)
        if cls in SIMPLE and kind != "none":
            calls.append(f"setEdgeLabel 0 {i} {j} 4 {rng.choice([0, 'd'])}")
            calls.append(f"q 0 getEdgeLabel {i} {j} {rng.choice([1, 'd'])}")
        if cls in WEIGHTED:
            calls.append(f"q 0 getEdgeWeight {i} {j} {rng.choice([1, 'd'])}")
    return calls


def forced_label_family():
    """a forced setEdgeLabel on a pair that is not an edge (documented as allowed) must not change
    what the *unforced* call does on that still-missing edge: invalid_argument, nothing changed"""
    for cls in SIMPLE:
        for kind in ("int", "str", "pt"):
            for (i, j) in ((0, 1), (1, 0), (2, 2)):
                for pre in ([], ["addEdge 0 0 2 3 0"], [f"addEdge 0 {i} {j} 3 0", f"removeEdge 0 {i} {j}"]):
                    ops = [gen.new_line(0, cls, kind, 3)] + pre + [
                        f"setEdgeLabel 0 {i} {j} 7 1", "dump 0",
                        f"setEdgeLabel 0 {i} {j} 4 0", "dump 0",
                        f"q 0 getEdgeLabel {i} {j} 1", f"q 0 hasEdge {i} {j}",
                        f"setEdgeLabel 0 {j} {i} 5 0", "dump 0"]
                    yield ({"cls": cls, "kind": kind, "n": 3, "len": len(ops), "family": "forced-label"}, ops)


def wl_C07(tier, rng):
    for item in forced_label_family():
        yield item
    # rejected calls on wide graphs, the valid argument being a hub
    for it in range(scale(tier, 10, 150)):
        cls = rng.choice(ALL_CLASSES)
        kind = rng.choice(KINDS_ALL) if cls in SIMPLE else "-"
        n, es = wide.shape(rng, cls, kind)
        hub = max(range(n), key=lambda v: sum(1 for e in es if v in e))
        ops = ["mode quiet"] + wide.build(rng, cls, kind, n, es) + ["dump 0"]
        calls = invalid_calls(cls, kind, n, rng, full=True, okv=hub) + missing_edge_calls(cls, kind, n, rng)
        rng.shuffle(calls)
        ops += calls + ["dump 0"]
        yield ({"cls": cls, "kind": kind, "n": n, "len": len(ops), "family": "wide"}, ops)
    for it in range(scale(tier, 160, 2500)):
        cls = rng.choice(ALL_CLASSES)
        kind = rng.choice(KINDS_ALL) if cls in SIMPLE else "-"
        meta, ops = gen.random_history(rng, cls, kind, nmax=5, lmax=12)
        n = meta["n"]
        calls = invalid_calls(cls, kind, n, rng, full=(it % 4 == 0)) + missing_edge_calls(cls, kind, n, rng)
        rng.shuffle(calls)
        # interleave rejected calls with valid ones
        present = set()
        for c in calls:
            ops.append(c)
            if c.startswith("q "):
                if rng.random() < 0.15:
                    ops.append("dump 0")
            if rng.random() < 0.2 and n > 0:
                if cls in SIMPLE:
                    op = gen.op_simple(rng, cls, kind, n, present, setlabel=False, weights={"resize": 0})
                elif cls in MULTI:
                    op = gen.op_multi(rng, cls, n, present)
                else:
                    op = gen.op_weighted(rng, cls, n, present)
                if not op.startswith("resize"):
                    ops.append(op)
        ops.append("dump 0")
        meta["len"] = len(ops)
        yield (meta, ops)


# ------------------------------------------------------------------ C08: enumeration
def wl_C08(tier, rng):
    # n = 0 and edgeless graphs of every class
    for cls in ALL_CLASSES:
        for kind in (["none", "int"] if cls in SIMPLE else ["-"]):
            for n in (0, 1, 3):
                yield ({"cls": cls, "kind": kind, "n": n, "len": 1, "exh": True}, [gen.new_line(0, cls, kind, n), "dump 0"])
    # exhaustive shapes: every subset of pairs on n <= 2 (quick) / 3 (thorough, directed n=3 has 512)
    for cls in ALL_CLASSES:
        kind = "none" if cls in SIMPLE else "-"
        for n in scale(tier, [1, 2], [1, 2, 3]):
            pairs = [(i, j) for i in range(n) for j in range(n)]
            if cls in ("und", "umulti", "uw"):
                pairs = [(i, j) for (i, j) in pairs if i <= j]
            for mask in range(1 << len(pairs)):
                es = [p for b, p in enumerate(pairs) if mask >> b & 1]
                for rep in range(scale(tier, 1, 2)):
                    order = list(es)
                    if rep:
                        rng.shuffle(order)
                    yield ({"cls": cls, "kind": kind, "n": n, "len": len(order), "exh": True},
                           gen.build_ops(cls, kind, n, order, rng=rng))
    # wide shapes
    for _ in range(scale(tier, 24, 400)):
        cls = rng.choice(ALL_CLASSES)
        kind = rng.choice(KINDS_ALL) if cls in SIMPLE else "-"
        n, es = wide.shape(rng, cls, kind)
        ops = ["mode quiet"] + wide.build(rng, cls, kind, n, es) + ["dump 0"]
        yield ({"cls": cls, "kind": kind, "n": n, "len": len(ops), "family": "wide"}, ops)
    # random larger shapes with isolated leading / trailing vertices
    for _ in range(scale(tier, 1200, 30000)):
        cls = rng.choice(ALL_CLASSES)
        kind = rng.choice(KINDS_ALL) if cls in SIMPLE else "-"
        n = rng.randint(1, scale(tier, 8, 12))
        lo = rng.randint(0, n - 1)
        hi = rng.randint(lo, n - 1)
        es = [(i, j) for (i, j) in rand_edges(rng, n) if lo <= i <= hi and (cls in ("dir", "dmulti", "dw") or lo <= j <= hi)]
        yield ({"cls": cls, "kind": kind, "n": n, "len": len(es)}, gen.build_ops(cls, kind, n, es, rng=rng))


# ------------------------------------------------------------------ C09: conversions / constructors / copies
def wl_C09(tier, rng):
    def one(cls, kind, n, es, labels):
        ops = gen.build_ops(cls, kind, n, es, labels=labels)
        if cls == "dir":
            ops += ["reversed 0 1", "reversed 1 2", "eq 0 2", "eq 2 0", "ofdirected 0 3", "todirected 3 4", "ofdirected 4 5", "eq 3 5"]
        elif cls == "und":
            ops += ["todirected 0 1", "ofdirected 1 2", "eq 0 2", "eq 2 0", "reversed 1 3", "eq 1 3"]
        ops += ["copy 0 6", "eq 0 6", "assign 0 7", "eq 7 0", "assign 7 7", "eq 7 0", "assign 0 0", "eq 0 6"]   # incl. self-assignment
        ops += ["movecopy 0 10", "eq 0 10", "moveassign 0 7", "eq 7 0"]
        # edge-list constructor vs one-at-a-time
        if True:
            cont = rng.choice(["vector", "list", "deque", "flist"])
            trip = []
            for idx, (i, j) in enumerate(es):
                l = labels[idx]
                if cls in MULTI:
                    l = abs(l) % 3 + 1
                trip += [str(i), str(j), str(l)]
            ops.append(f"ctor 8 {cls} {kind} {cont} " + " ".join(trip))
            ops[-1] = ops[-1].rstrip()
            # same thing by hand on a graph of the right size
            m = (max(max(i, j) for (i, j) in es) + 1) if es else 0
            ops += gen.build_ops(cls, kind, m, es, labels=labels)[0:1]
            ops[-1] = ops[-1].replace("new 0 ", "new 9 ")
            for l in gen.build_ops(cls, kind, m, es, labels=labels)[1:]:
                t = l.split()
                t[1] = "9"
                ops.append(" ".join(t))
            ops += ["eq 8 9", "eq 9 8"]
        if n > 0:
            a, b = gen.pick_pair(rng, n)
            ops += [add_op(cls, 0, a, b, 1 if cls in MULTI else 7), "dump 6", "dump 7"]
        return ({"cls": cls, "kind": kind, "n": n, "len": len(ops)}, ops)

    # exhaustive: all graphs on n <= 2 (quick) / 3 (thorough: simple classes only)
    for cls in ALL_CLASSES:
        kinds = (["none", "int"] if cls in SIMPLE else ["-"])
        for kind in kinds:
            for n in scale(tier, [0, 1, 2], [0, 1, 2, 3] if cls in SIMPLE else [0, 1, 2]):
                pairs = [(i, j) for i in range(n) for j in range(n)]
                if cls in ("und", "umulti", "uw"):
                    pairs = [(i, j) for (i, j) in pairs if i <= j]
                for mask in range(1 << len(pairs)):
                    es = [p for b, p in enumerate(pairs) if mask >> b & 1]
                    labels = [((3 * i + j) % 5) + 1 for (i, j) in es]
                    yield one(cls, kind, n, es, labels)
    for _ in range(scale(tier, 20, 300)):
        cls = rng.choice(ALL_CLASSES)
        kind = rng.choice(KINDS_ALL) if cls in SIMPLE else "-"
        n, es = wide.shape(rng, cls, kind)
        labels = [val_for(rng, cls, kind) if cls not in MULTI else rng.randint(0, 6) for _ in es]
        meta, ops = one(cls, kind, n, es, labels)
        meta["family"] = "wide"
        # quiet while building, explicit dumps of the results
        ops = ["mode quiet"] + ops + [f"dump {k}" for k in range(10)]
        yield (meta, ops)
    for _ in range(scale(tier, 1000, 25000)):
        cls = rng.choice(ALL_CLASSES)
        kind = rng.choice(KINDS_ALL) if cls in SIMPLE else "-"
        n = rng.randint(0, scale(tier, 6, 9))
        es = rand_edges(rng, n)
        if rng.random() < 0.3:
            es += [rng.choice(es)] * 1 if es else []   # repeated pair inside a constructor list
        if cls in ("und", "umulti", "uw") and rng.random() < 0.5:
            es = und_canon(es)
        labels = [val_for(rng, cls, kind) if cls not in MULTI else rng.randint(0, 6) for _ in es]
        yield one(cls, kind, n, es, labels)


# ------------------------------------------------------------------ C10: subgraphs
def wl_C10(tier, rng):
    def one(cls, kind, n, es, labels, subsets, rejected=False):
        ops = gen.build_ops(cls, kind, n, es, labels=labels)
        for k, S in enumerate(subsets):
            if k == len(subsets) // 2 or (rejected and k % 2 == 1):
                # a rejected call in between (valid members first, then one that is out of range): the calls
                # after it must answer as if it had never been made
                bad = list(subsets[(k * 7 + 3) % len(subsets)]) + [n + (k % 3) * (k % 3)]
                if k % 4 == 3:
                    bad[-1] = 4294967295
                sb = " ".join(map(str, bad))
                ops += ["subgraph 0 1 S " + sb, "subgraphremap 0 2 S " + sb]
            s = " ".join(map(str, S))
            ops.append(("subgraph 0 1 S " + s).rstrip())
            ops.append(("subgraphremap 0 2 S " + s).rstrip())
        return ({"cls": cls, "kind": kind, "n": n, "len": len(ops)}, ops)
    for cls in SIMPLE:
        for kind in ["none", "int"]:
            for n in scale(tier, [0, 1, 2], [0, 1, 2, 3]):
                pairs = [(i, j) for i in range(n) for j in range(n)]
                if cls == "und":
                    pairs = [(i, j) for (i, j) in pairs if i <= j]
                allS = [list(c) for r in range(n + 1) for c in itertools.combinations(range(n), r)]
                for mask in range(1 << len(pairs)):
                    es = [p for b, p in enumerate(pairs) if mask >> b & 1]
                    labels = [((3 * i + j) % 5) + 1 for (i, j) in es]
                    yield one(cls, kind, n, es, labels, allS)
    for _ in range(scale(tier, 24, 400)):
        cls = rng.choice(SIMPLE)
        kind = rng.choice(KINDS_ALL)
        n, es = wide.shape(rng, cls, kind)
        labels = [gen.label_tok(rng, kind) for _ in es]
        ops = ["mode quiet"] + gen.build_ops(cls, kind, n, es, labels=labels)
        for k, S in enumerate(wide.subsets(rng, n)):
            if k in (1, 4):
                sb = " ".join(map(str, [v for v in range(n) if rng.random() < 0.5] + [n + rng.choice([0, 1, 64])]))
                ops += ["subgraph 0 1 S " + sb, "subgraphremap 0 2 S " + sb]
            sS = " ".join(map(str, S))
            ops += [("subgraph 0 1 S " + sS).rstrip(), "dump 1", ("subgraphremap 0 2 S " + sS).rstrip(), "dump 2"]
        yield ({"cls": cls, "kind": kind, "n": n, "len": len(ops), "family": "wide"}, ops)
    for _ in range(scale(tier, 800, 20000)):
        cls = rng.choice(SIMPLE)
        kind = rng.choice(KINDS_ALL)
        n = rng.randint(1, scale(tier, 8, 12))
        es = rand_edges(rng, n)
        labels = [gen.label_tok(rng, kind) for _ in es]
        subsets = []
        for _ in range(4):
            S = [v for v in range(n) if rng.random() < rng.choice([0.2, 0.5, 0.9])]
            rng.shuffle(S)
            subsets.append(S)
        subsets += [[], list(range(n))]
        yield one(cls, kind, n, es, labels, subsets, rejected=rng.random() < 0.5)


# ------------------------------------------------------------------ C16: forced duplicates
def wl_C16(tier, rng):
    yield from wide.forced(scale(tier, 40, 600), rng)
    # simple / labelled classes: any mix of forced and unforced insertions, removeEdge, dedup
    for cls in SIMPLE:
        for kind in ["none", "int"]:
            for n in scale(tier, [1, 2], [1, 2, 3]):
                al = gen.alphabet_simple(cls, kind, n, labels=(1,), force=(0, 1), setlabel=False, dedup=True)
                al = [a for a in al if a.split()[0] in ("addEdge", "removeEdge", "removeDuplicateEdges")]
                for k in range(1, scale(tier, 3, 4) + 1):
                    lim = scale(tier, 2500, 40000) if len(al) ** k > scale(tier, 2500, 40000) else None
                    yield from gen.exhaustive(cls, kind, n, al, k, limit=lim, rng=rng)
    for _ in range(scale(tier, 1500, 40000)):
        cls = rng.choice(SIMPLE)
        kind = rng.choice(KINDS_ALL)
        yield gen.random_history(rng, cls, kind, nmax=5, lmax=scale(tier, 20, 40), force_p=0.5, dedup=True,
                                 setlabel=False, weights={"removeVertexFromEdgeList": 0, "clearEdges": 1, "removeSelfLoops": 0, "addReciprocalEdge": 0})
    # weighted / multigraph classes: forced insertions (one value per pair) then removeDuplicateEdges
    for _ in range(scale(tier, 1200, 30000)):
        cls = rng.choice(MULTI + WEIGHTED)
        n = rng.randint(1, 5)
        vals = {}
        ops = [gen.new_line(0, cls, "-", n)]
        und = cls in ("umulti", "uw")

        def keyof(i, j):
            return (min(i, j), max(i, j)) if und else (i, j)
        for _ in range(rng.randint(1, 14)):
            i, j = gen.pick_pair(rng, n)
            key = keyof(i, j)
            if cls == "dmulti" and rng.random() < 0.15:
                # forced reciprocal insertion: both orientations, one common multiplicity
                k2 = keyof(j, i)
                v = vals.get(key, vals.get(k2))
                if v is None:
                    v = rng.choice([1, 1, 2, 3])
                if vals.get(key, v) == v and vals.get(k2, v) == v:
                    force = 1 if (key in vals or k2 in vals or rng.random() < 0.6) else 0
                    vals.setdefault(key, v)
                    vals.setdefault(k2, v)
                    ops.append(f"addReciprocalEdge 0 {i} {j} {force}" if v == 1 and rng.random() < 0.5
                               else f"addReciprocalMultiedge 0 {i} {j} {v} {force}")
                    continue
            first = key not in vals
            if first:
                vals[key] = rng.choice([1, 1, 1, 2, 3, 4]) if cls in MULTI else rng.randint(-8, 16)
            # a repeated pair is always forced (an unforced repeat would merge multiplicities,
            # which leaves the property's "all copies carry the same value" premise)
            force = 1 if (not first or rng.random() < 0.6) else 0
            if cls in MULTI and vals[key] == 1 and rng.random() < 0.5:
                ops.append(f"addEdge 0 {i} {j} {force}")      # the single-edge entry point: addMultiedge(i, j, 1, force)
            else:
                ops.append(add_op(cls, 0, i, j, vals[key], force=force))
        ops.append("removeDuplicateEdges 0")
        # the same calls without force, each distinct pair once with the common value (DESIGN C16 note)
        ops.append(gen.new_line(1, cls, "-", n))
        for (a, b), v in vals.items():
            ops.append(add_op(cls, 1, a, b, v, force=0))
        ops += ["eq 0 1", "eq 1 0"]
        yield ({"cls": cls, "kind": "-", "n": n, "len": len(ops)}, ops)


# ------------------------------------------------------------------ C11 / C12 / C19: path searches
def graph_by_ctor(cls, kind, n, es, slot=0):
    """one `ctor` line building the graph (size n enforced by a preceding resize when needed)"""
    trip = " ".join(f"{i} {j} 1" for (i, j) in es)
    ops = [f"ctor {slot} {cls} {kind} vector {trip}".rstrip()]
    m = (max(max(i, j) for (i, j) in es) + 1) if es else 0
    if m < n:
        ops.append(f"resize {slot} {n}")
    return ops


def algo_ops(n, rng=None, all_pairs=True, max_pairs=6):
    ops = []
    for s in range(n):
        ops += [f"bfs 0 {s}", f"allpred 0 {s}", f"geodesicsfrom 0 {s}", f"allgeodesicsfrom 0 {s}"]
    pairs = [(s, t) for s in range(n) for t in range(n)]
    if not all_pairs and rng is not None and len(pairs) > max_pairs:
        pairs = rng.sample(pairs, max_pairs)
    for (s, t) in pairs:
        ops += [f"geodesic 0 {s} {t}", f"allgeodesics 0 {s} {t}"]
        # the public reconstruction functions called directly (search from s; and from another vertex)
        ops += [f"pathto 0 {s} {s} {t}", f"allpathsto 0 {s} {s} {t}", f"pathto3 0 {s} {t}", f"allpathsto3 0 {s} {t}"]
        if n > 1:
            ps = (s + 1 + (t % (n - 1))) % n
            ops += [f"pathto 0 {ps} {s} {t}", f"allpathsto 0 {ps} {s} {t}"]
    return ops


def layered(width, layers, und=False, back=False):
    """source 0, then `layers` layers of `width` vertices, complete between consecutive layers:
    width^layers shortest paths to the last layer"""
    es = []
    n = 1 + width * layers
    def vid(l, k): return 1 + l * width + k
    for k in range(width):
        es.append((0, vid(0, k)))
    for l in range(layers - 1):
        for a in range(width):
            for b in range(width):
                es.append((vid(l, a), vid(l + 1, b)))
    if back:
        es.append((vid(layers - 1, 0), 0))
    return n, es


def grid(w, h):
    es = []
    def vid(x, y): return y * w + x
    for y in range(h):
        for x in range(w):
            if x + 1 < w: es.append((vid(x, y), vid(x + 1, y)))
            if y + 1 < h: es.append((vid(x, y), vid(x, y + 1)))
    return w * h, es


def wl_C11(tier, rng):
    # exhaustive: every directed graph on <= 3 vertices (quick) / 4 (thorough), every undirected one on <= 4 / 5
    for cls in SIMPLE:
        und = cls == "und"
        top = scale(tier, 4 if und else 3, 5 if und else 4)
        for n in range(0, top + 1):
            pairs = [(i, j) for i in range(n) for j in range(n) if (not und or i <= j)]
            total = 1 << len(pairs)
            limit = scale(tier, 1200, 70000)
            masks = range(total) if total <= limit else [rng.randrange(total) for _ in range(limit)]
            for mask in masks:
                es = [p for b, p in enumerate(pairs) if mask >> b & 1]
                rng.shuffle(es)
                ops = ["mode quiet"] + graph_by_ctor(cls, "none", n, es) + algo_ops(n)
                yield ({"cls": cls, "kind": "none", "n": n, "len": len(ops), "exh": total <= limit}, ops)
    # sampled 4-vertex digraphs / 5-vertex undirected graphs in the quick tier, random larger ones in both
    for _ in range(scale(tier, 1500, 20000)):
        cls = rng.choice(SIMPLE)
        kind = rng.choice(["none", "int", "str"])
        n = rng.randint(1, scale(tier, 10, 30))
        es = rand_edges(rng, n, density=rng.choice([0.05, 0.1, 0.2, 0.4]))
        ops = ["mode quiet"] + graph_by_ctor(cls, kind, n, es) + algo_ops(n if n <= 5 else 0)
        if n > 5:
            for s in rng.sample(range(n), min(n, 3)):
                ops += [f"bfs 0 {s}", f"allpred 0 {s}", f"geodesicsfrom 0 {s}"]
                if n <= 14:
                    ops.append(f"allgeodesicsfrom 0 {s}")
                t = rng.randrange(n)
                ops += [f"geodesic 0 {s} {t}", f"allgeodesics 0 {s} {t}" if n <= 14 else f"geodesic 0 {t} {s}"]
        yield ({"cls": cls, "kind": kind, "n": n, "len": len(ops)}, ops)
    # geodesics with very many hops (path graphs): nothing may recurse on the hop count
    for cls_ in ("dir", "und"):
        ops = [f"chainpath {cls_} {k}" for k in (1, 2, 3, 1000, scale(tier, 300000, 1500000))]
        yield ({"cls": cls_, "kind": "none", "n": 0, "len": len(ops), "family": "chainpath"}, ops)
    # findSourceVertex on arbitrary distance vectors: first zero, or invalid_argument
    for _ in range(scale(tier, 40, 600)):
        ops = []
        for _ in range(8):
            n = rng.randint(0, 6)
            d = [rng.choice([0, 0, 1, 2, 3, 4294967295]) for _ in range(n)]
            ops.append("findsource " + (" ".join(map(str, d)) if d else "-"))
        yield ({"cls": "-", "kind": "-", "n": 0, "len": len(ops), "family": "findsource"}, ops)
    # multigraphs and weighted graphs seen through asLabeledGraph()
    for _ in range(scale(tier, 120, 2500)):
        cls = rng.choice(MULTI + WEIGHTED)
        n = rng.randint(1, scale(tier, 7, 12))
        es = rand_edges(rng, n, density=rng.choice([0.1, 0.2, 0.4]))
        if cls in ("umulti", "uw"):
            es = und_canon(es)
        ops = ["mode quiet", gen.new_line(0, cls, "-", n)] + [add_op(cls, 0, i, j, val_for(rng, cls, "-")) for (i, j) in es]
        ops += algo_ops(n if n <= 4 else 0)
        if n > 4:
            for s_ in rng.sample(range(n), 3):
                t = rng.randrange(n)
                ops += [f"bfs 0 {s_}", f"allpred 0 {s_}", f"geodesic 0 {s_} {t}", f"allgeodesics 0 {s_} {t}", f"geodesicsfrom 0 {s_}"]
        yield ({"cls": cls, "kind": "-", "n": n, "len": len(ops), "family": "asLabeledGraph"}, ops)
    # wide graphs (hubs; sizes around 32 and 64)
    for _ in range(scale(tier, 30, 500)):
        cls = rng.choice(SIMPLE)
        n, es = wide.shape(rng, cls, "none")
        ops = ["mode quiet"] + graph_by_ctor(cls, "none", n, es)
        for s_ in rng.sample(wide.special(n), min(4, len(wide.special(n)))):
            t = rng.choice(wide.special(n))
            ops += [f"bfs 0 {s_}", f"allpred 0 {s_}", f"geodesicsfrom 0 {s_}", f"geodesic 0 {s_} {t}", f"allgeodesics 0 {s_} {t}"]
        yield ({"cls": cls, "kind": "none", "n": n, "len": len(ops), "family": "wide"}, ops)
    # layered graphs (many ties / many shortest paths)
    for width in (2, 3):
        for layers in range(1, scale(tier, 5, 7) if width == 2 else scale(tier, 3, 4)):
            for cls in SIMPLE:
                n, es = layered(width, layers, back=(layers % 2 == 0))
                ops = ["mode quiet"] + graph_by_ctor(cls, "none", n, es)
                ops += ["bfs 0 0", "allpred 0 0", f"geodesic 0 0 {n-1}", f"allgeodesics 0 0 {n-1}", "geodesicsfrom 0 0", "allgeodesicsfrom 0 0"]
                yield ({"cls": cls, "kind": "none", "n": n, "len": len(ops), "family": "layered"}, ops)


def weighted_ops(cls, n, wes, slot=0):
    ops = ["mode quiet", gen.new_line(slot, cls, "-", n)]
    for (i, j, w) in wes:
        ops.append(f"addEdge {slot} {i} {j} {w} 0")
    return ops


def scaled_weight_family(tier, rng, count):
    """weights that are not exactly representable (every weight times 7/10, 1/3, …): sums are rounded, ties between
    routes are ties between *rounded* sums.  All non-zero weights of a graph are equal, so that routes of equal
    exact length have equal floating-point length as well and the exact model stays comparable (harness: `mode wscale`)."""
    for _ in range(count):
        cls = rng.choice(WEIGHTED)
        a, b = rng.choice([(7, 10), (1, 3), (1, 10), (3, 7), (11, 10)])
        c = rng.choice([1, 2, 3, 4, 5, 7])
        shape = rng.choice(["layered", "layered", "grid", "random"])
        if shape == "layered":
            n, es = layered(rng.choice([2, 3]), rng.randint(2, scale(tier, 10, 14)), back=rng.random() < 0.3)
        elif shape == "grid":
            n, es = grid(rng.randint(2, 5), rng.randint(2, 5))
        else:
            n = rng.randint(2, 12)
            es = rand_edges(rng, n, density=rng.choice([0.2, 0.4, 0.7]))
        if cls == "uw":
            es = und_canon(es)
        zero_p = rng.choice([0.0, 0.0, 0.2])
        wes = [(i, j, 0 if rng.random() < zero_p else c) for (i, j) in es]
        ops = weighted_ops(cls, n, wes)
        ops.insert(1, f"mode wscale {a} {b}")
        srcs = [0, n - 1] + [rng.randrange(n) for _ in range(2)]
        ops += [f"dijkstra 0 {s_}" for s_ in sorted(set(srcs))]
        yield ({"cls": cls, "kind": "-", "n": n, "len": len(ops), "family": "scaled-weights"}, ops)


def wl_C12(tier, rng):
    alpha = [0, 1, 2, 4, 8]   # quarter units: 0, 1/4, 1/2, 1, 2
    for cls in WEIGHTED:
        und = cls == "uw"
        for n in scale(tier, [1, 2, 3], [1, 2, 3, 4]):
            pairs = [(i, j) for i in range(n) for j in range(n) if (not und or i <= j)]
            total = (len(alpha) + 1) ** len(pairs)
            limit = scale(tier, 1500, 60000)
            for k in (range(total) if total <= limit else range(limit)):
                code = k if total <= limit else rng.randrange(total)
                wes = []
                for p in pairs:
                    code, d = divmod(code, len(alpha) + 1)
                    if d:
                        wes.append((p[0], p[1], alpha[d - 1]))
                rng.shuffle(wes)
                ops = weighted_ops(cls, n, wes) + [f"dijkstra 0 {s}" for s in range(n)]
                yield ({"cls": cls, "kind": "-", "n": n, "len": len(ops), "exh": total <= limit}, ops)
    for _ in range(scale(tier, 1500, 30000)):
        cls = rng.choice(WEIGHTED)
        n = rng.randint(1, scale(tier, 10, 20))
        es = rand_edges(rng, n, density=rng.choice([0.1, 0.2, 0.4, 0.7]))
        if cls == "uw":
            es = und_canon(es)
        wmax = rng.choice([1, 4, 16, 40])
        wes = [(i, j, rng.choice([0, 0, rng.randint(0, wmax), rng.randint(0, wmax)])) for (i, j) in es]
        ops = weighted_ops(cls, n, wes) + [f"dijkstra 0 {s}" for s in rng.sample(range(n), min(n, 4))]
        yield ({"cls": cls, "kind": "-", "n": n, "len": len(ops)}, ops)
    # wide graphs
    for _ in range(scale(tier, 30, 500)):
        cls = rng.choice(WEIGHTED)
        n, es = wide.shape(rng, cls, "-")
        wmax = rng.choice([1, 4, 16, 40])
        wes = [(i, j, rng.choice([0, rng.randint(0, wmax), rng.randint(0, wmax)])) for (i, j) in es]
        ops = weighted_ops(cls, n, wes) + [f"dijkstra 0 {s_}" for s_ in rng.sample(wide.special(n), min(4, len(wide.special(n))))]
        yield ({"cls": cls, "kind": "-", "n": n, "len": len(ops), "family": "wide"}, ops)
    yield from scaled_weight_family(tier, rng, scale(tier, 60, 1200))
    # arbitrary weights at a power-of-two scale far below 1 (all sums exact; improvements smaller than any absolute tolerance)
    for _ in range(scale(tier, 150, 3000)):
        cls = rng.choice(WEIGHTED)
        n = rng.randint(2, scale(tier, 8, 14))
        es = rand_edges(rng, n, density=rng.choice([0.2, 0.4, 0.7]))
        if cls == "uw":
            es = und_canon(es)
        wes = [(i, j, rng.choice([0, 1, 2, 3, 4, 8, rng.randint(0, 12)])) for (i, j) in es]
        ops = weighted_ops(cls, n, wes)
        ops.insert(1, f"mode wscale 1 {2 ** rng.choice([60, 70, 200])}")
        ops += [f"dijkstra 0 {s_}" for s_ in rng.sample(range(n), min(n, 3))]
        yield ({"cls": cls, "kind": "-", "n": n, "len": len(ops), "family": "pow2-scale"}, ops)
    # zero-weight cycles
    for n in range(2, scale(tier, 8, 16)):
        for cls in WEIGHTED:
            wes = [(i, (i + 1) % n, 0) for i in range(n)] + [(0, n // 2, 4)]
            ops = weighted_ops(cls, n, wes) + [f"dijkstra 0 {s}" for s in range(n)]
            yield ({"cls": cls, "kind": "-", "n": n, "len": len(ops), "family": "zero-cycle"}, ops)


def wl_C19(tier, rng):
    # families with exponentially many shortest paths
    for width in (2, 3, 4):
        top = scale(tier, 12, 40) if width == 2 else scale(tier, 6, 14)
        for layers in range(1, top + 1):
            for cls in SIMPLE:
                n, es = layered(width, layers, back=(layers % 3 == 0))
                ops = ["mode quiet"] + graph_by_ctor(cls, "none", n, es)
                ops += ["bfs 0 0", "allpred 0 0", f"bfs 0 {n-1}", f"allpred 0 {n-1}", f"allpred 0 {n//2}"]
                yield ({"cls": cls, "kind": "none", "n": n, "len": len(ops), "family": f"layered{width}"}, ops)
    for w in range(2, scale(tier, 5, 8)):
        for h in range(2, scale(tier, 5, 8)):
            for cls in SIMPLE:
                n, es = grid(w, h)
                ops = ["mode quiet"] + graph_by_ctor(cls, "none", n, es) + ["bfs 0 0", "allpred 0 0", f"allpred 0 {n-1}"]
                yield ({"cls": cls, "kind": "none", "n": n, "len": len(ops), "family": "grid"}, ops)
            # weighted grids: unit weights (many ties) and zero weights
            for cls in WEIGHTED:
                n, es = grid(w, h)
                for wt in (4, 0):
                    wes = [(i, j, wt) for (i, j) in es]
                    ops = weighted_ops(cls, n, wes) + ["dijkstra 0 0", f"dijkstra 0 {n-1}"]
                    yield ({"cls": cls, "kind": "-", "n": n, "len": len(ops), "family": "wgrid"}, ops)
    # wide graphs
    for _ in range(scale(tier, 20, 300)):
        if rng.random() < 0.5:
            cls = rng.choice(SIMPLE)
            n, es = wide.shape(rng, cls, "none")
            ops = ["mode quiet"] + graph_by_ctor(cls, "none", n, es)
            for s_ in rng.sample(wide.special(n), min(4, len(wide.special(n)))):
                ops += [f"bfs 0 {s_}", f"allpred 0 {s_}"]
        else:
            cls = rng.choice(WEIGHTED)
            n, es = wide.shape(rng, cls, "-")
            wes = [(i, j, rng.choice([0, 1, 4, rng.randint(0, 20)])) for (i, j) in es]
            ops = weighted_ops(cls, n, wes) + [f"dijkstra 0 {s_}" for s_ in rng.sample(wide.special(n), min(4, len(wide.special(n))))]
        yield ({"cls": cls, "kind": "-", "n": n, "len": len(ops), "family": "wide"}, ops)
    yield from scaled_weight_family(tier, rng, scale(tier, 60, 1200))
    # decrease-key stress: sparse graphs (so that V+E+1 is tight) whose weights are spread widely (so that many
    # queued vertices get a shorter distance later); every vertex as source
    for _ in range(scale(tier, 150, 3000)):
        cls = rng.choice(WEIGHTED)
        n = rng.randint(8, scale(tier, 16, 24))
        m = rng.randint(2 * n, 5 * n // 2 + 2)
        es = sorted({gen.pick_pair(rng, n, loops=0.05) for _ in range(m)})
        rng.shuffle(es)
        if cls == "uw":
            es = und_canon(es)
        top = rng.choice([12, 30, 100])
        wes = [(i, j, rng.randint(0, top)) for (i, j) in es]
        ops = weighted_ops(cls, n, wes) + [f"dijkstra 0 {s_}" for s_ in range(n)]
        yield ({"cls": cls, "kind": "-", "n": n, "len": len(ops), "family": "decrease-key"}, ops)
    # scan counts on all small graphs and random ones (same histories as C11/C12, fewer)
    for cls in SIMPLE:
        und = cls == "und"
        for n in range(0, 4):
            pairs = [(i, j) for i in range(n) for j in range(n) if (not und or i <= j)]
            for mask in range(1 << len(pairs)):
                es = [p for b, p in enumerate(pairs) if mask >> b & 1]
                ops = ["mode quiet"] + graph_by_ctor(cls, "none", n, es)
                for s in range(n):
                    ops += [f"bfs 0 {s}", f"allpred 0 {s}"]
                yield ({"cls": cls, "kind": "none", "n": n, "len": len(ops), "exh": True}, ops)
    for _ in range(scale(tier, 800, 15000)):
        if rng.random() < 0.5:
            cls = rng.choice(SIMPLE)
            n = rng.randint(1, scale(tier, 14, 40))
            es = rand_edges(rng, n, density=rng.choice([0.05, 0.1, 0.3, 0.6]))
            ops = ["mode quiet"] + graph_by_ctor(cls, "none", n, es)
            for s in rng.sample(range(n), min(n, 4)):
                ops += [f"bfs 0 {s}", f"allpred 0 {s}"]
        else:
            cls = rng.choice(WEIGHTED)
            n = rng.randint(1, scale(tier, 12, 30))
            es = rand_edges(rng, n, density=rng.choice([0.1, 0.3, 0.6]))
            if cls == "uw":
                es = und_canon(es)
            wes = [(i, j, rng.choice([0, 0, 1, 4, rng.randint(0, 20)])) for (i, j) in es]
            ops = weighted_ops(cls, n, wes) + [f"dijkstra 0 {s}" for s in rng.sample(range(n), min(n, 4))]
        yield ({"cls": cls, "kind": "-", "n": n, "len": len(ops)}, ops)


# ------------------------------------------------------------------ C13 / C14 / C15: file routines
import struct

TEXT_KINDS = ["none", "int", "str"]
BIN_KINDS = ["none", "chr", "i16", "int", "uint", "i64", "flt", "dbl"]
BIN_FMT = {"none": None, "chr": "<b", "i16": "<h", "int": "<i", "uint": "<I", "i64": "<q", "flt": "<f", "dbl": "<d"}


def hexs(b):
    return b.hex() if b else "-"


def bin_label_tok(rng, kind):
    if kind == "none":
        return 0
    if kind == "uint":
        return rng.choice([0, 1, 7, 255, 256, 65536, 4294967295])
    if kind == "chr":
        return rng.choice([0, 1, -1, 65, 127, -128])
    if kind == "i16":
        return rng.choice([0, 1, -1, 300, 32767, -32768])
    if kind == "int":
        return rng.choice([0, 1, -1, 70000, 2147483647, -2147483648])
    if kind == "i64":
        return rng.choice([0, 1, -1, 2 ** 40 + 3, -(2 ** 40) - 3])
    return rng.choice([0, 1, -1, 6, -37, 1024, 3])   # quarter units for flt / dbl


def bin_file(kind, recs):
    out = b""
    for (i, j, l) in recs:
        out += struct.pack("<II", i, j)
        f = BIN_FMT[kind]
        if f:
            out += struct.pack(f, l / 4.0 if kind in ("flt", "dbl") else l)
    return out


def graph_ops_labelled(cls, kind, n, es, labels, slot=0):
    ops = [gen.new_line(slot, cls, kind, n)]
    for (i, j), l in zip(es, labels):
        ops.append(f"addEdge {slot} {i} {j} {l} 0")
    return ops



# string labels whose text form needs care (no leading blank, no line break: outside C13's premise)
TRICKY_STR = [b"#x", b"a#b", b"x y", b"two  words", b"t\tb", b"trail ", b"tr\t", b"\xc3\xa9", b"0", b"-5", b"s01", b"S1",
              b"a,b;c", b'"q"', b"s1000000", b"s-0", b"1 2", b"x" * 300, b"\x01\x7f\xff"]


def str_tok(b):
    """protocol token of a string label (the canonical forms stay integers; anything else is `?<hex>`)"""
    if not b:
        return "0"
    if b[:1] == b"s" and len(b) < 9:
        try:
            k = int(b[1:])
            if k != 0 and abs(k) < 1000000 and b"s" + str(k).encode() == b:
                return str(k)
        except ValueError:
            pass
    return "?" + b.hex()


def text_label_tok(rng, kind):
    if kind == "str" and rng.random() < 0.5:
        return str_tok(rng.choice(TRICKY_STR))
    if kind == "int" and rng.random() < 0.25:
        return rng.choice([2147483647, -2147483648, 2147483646, -2147483647, 1000000, -999999, 10, -10, 100])
    return gen.label_tok(rng, kind)

def text_line(rng, a, b, lab, style):
    ws = lambda lo=1: "".join(rng.choice([" ", "\t"]) for _ in range(rng.randint(lo, 3)))
    lead = ws(0) if style != "plain" else ""
    line = lead + a + (ws() if style != "plain" else " ") + b
    if lab is not None:
        line += (ws() if style != "plain" else " ") + lab
    if style == "trail":
        line += ws()
    if style == "crlf":
        line += "\r"
    return line


def wellformed_text(rng, kind, named, n_lines=6, vmax=6):
    lines = []
    names = ["a", "b", "c", "node7", "x_y", "Z", "0", "12", "x#1", "-", "\u00e9"]
    for _ in range(rng.randint(0, n_lines)):
        r = rng.random()
        if r < 0.2:
            lines.append("#" + rng.choice(["", " comment", "# 1 2 3", " 0 1"]))
            continue
        style = rng.choice(["plain", "ws", "ws", "trail", "crlf"])
        if named:
            a, b = rng.choice(names), rng.choice(names)
        else:
            a, b = str(rng.randint(0, vmax)), str(rng.randint(0, vmax))
            if rng.random() < 0.1:
                a = "+" + a
            if rng.random() < 0.1:
                b = "0" + b
        lab = None
        if kind == "int":
            lab = str(rng.randint(-20, 20)) if rng.random() < 0.8 else rng.choice(
                ["+5", "007", "-0", "2147483647", "-2147483648", "12abc", "3 4", "5\t", "1e3", "0x10"])
        elif kind == "str":
            lab = rng.choice(["s1", "s22", "hello", "two words", "x", "s0", "s-3", "a#b", "#h", "in\tside", "tr  ", "\u00e9", "1 2 3", "#"]) if rng.random() < 0.85 else None
        lines.append(text_line(rng, a, b, lab, style))
    text = "\n".join(lines)
    if lines and rng.random() < 0.8:
        text += "\n"
    return text.encode()


def wl_C13(tier, rng):
    # round trips: all graphs on n <= 2 (quick) / 3 (thorough) x codecs, then random
    for cls in SIMPLE:
        und = cls == "und"
        for kind in TEXT_KINDS:
            for n in scale(tier, [0, 1, 2], [0, 1, 2, 3]):
                pairs = [(i, j) for i in range(n) for j in range(n) if (not und or i <= j)]
                total = 1 << len(pairs)
                for mask in (range(total) if total <= 600 else [rng.randrange(total) for _ in range(600)]):
                    es = [p for b, p in enumerate(pairs) if mask >> b & 1]
                    labels = [((5 * i + j) % 7) - 2 if kind != "str" else (5 * i + j) % 7 for (i, j) in es]
                    ops = ["mode quiet"] + graph_ops_labelled(cls, kind, n, es, labels)
                    ops += [f"writetext 0 {kind}", f"roundtriptext 0 1 {kind}", "mode verbose", "dump 1", f"resize 1 {n}", "eq 0 1", "eq 1 0"]
                    yield ({"cls": cls, "kind": kind, "n": n, "len": len(ops), "exh": total <= 600}, ops)
    for _ in range(scale(tier, 1200, 25000)):
        cls = rng.choice(SIMPLE)
        kind = rng.choice(TEXT_KINDS)
        n = rng.randint(0, scale(tier, 8, 14))
        es = rand_edges(rng, n)
        if cls == "und":
            es = und_canon(es)
        labels = [text_label_tok(rng, kind) for _ in es]
        ops = ["mode quiet"] + graph_ops_labelled(cls, kind, n, es, labels)
        ops += [f"writetext 0 {kind}", f"roundtriptext 0 1 {kind}", "mode verbose", "dump 1", f"resize 1 {n}", "eq 0 1"]
        yield ({"cls": cls, "kind": kind, "n": n, "len": len(ops)}, ops)
    # vertex indices of several decimal digits (256, 300, 4660) next to small ones
    for _ in range(scale(tier, 30, 500)):
        cls = rng.choice(SIMPLE)
        kind = rng.choice(TEXT_KINDS)
        pool = [0, 1, 9, 10, 99, 100, 255, 256, 257, 300, 999, 1000, 4660]
        n = rng.choice([101, 258, 301, 4661])
        pool = [v for v in pool if v < n]
        es = list({(rng.choice(pool), rng.choice(pool)) for _ in range(rng.randint(1, 8))})
        if cls == "und":
            es = und_canon(es)
        rng.shuffle(es)
        labels = [text_label_tok(rng, kind) for _ in es]
        ops = ["mode quiet"] + graph_ops_labelled(cls, kind, n, es, labels)
        ops += [f"writetext 0 {kind}", f"roundtriptext 0 1 {kind}"]
        for (i, j) in es:
            ops += [f"q 1 hasEdge {i} {j}", f"q 1 getEdgeLabel {i} {j} 0", f"q 1 getOutNeighbours {i}"]
        m = max(max(e) for e in es) + 1
        ops += [f"q 1 hasEdge {m} 0", f"q 1 hasEdge {m - 1} 0", f"resize 1 {n}", "eq 0 1", "eq 1 0"]
        yield ({"cls": cls, "kind": kind, "n": n, "len": len(ops), "family": "big-index"}, ops)
    # the tokeniser itself (public io::findEdgeFromString): any mix of blanks, tabs and the other separators
    for _ in range(scale(tier, 60, 1200)):
        ops = []
        for _ in range(10):
            toks = [rng.choice(["0", "12", "a", "x#1", "\u00e9", "7"]) for _ in range(rng.randint(0, 4))]
            sep = lambda lo=1: "".join(rng.choice([" ", "\t", " ", "\v", "\f", "\r"]) for _ in range(rng.randint(lo, 3)))
            line = sep(0) + sep().join(toks) + sep(0)
            ops.append("tokenise " + hexs(line.encode()))
        yield ({"cls": "-", "kind": "-", "n": 0, "len": len(ops), "family": "tokenise"}, ops)
    # documented format: comments, horizontal whitespace, names
    for _ in range(scale(tier, 2500, 40000)):
        cls = rng.choice(SIMPLE)
        kind = rng.choice(TEXT_KINDS)
        named = rng.random() < 0.5
        data = wellformed_text(rng, kind, named)
        verb = "loadtextnamed" if named else "loadtext"
        yield ({"cls": cls, "kind": kind, "n": 0, "len": 1}, [f"{verb} 0 {cls} {kind} {hexs(data)}", "dump 0"])


def wl_C14(tier, rng):
    for cls in SIMPLE:
        und = cls == "und"
        for kind in BIN_KINDS:
            for n in scale(tier, [0, 1, 2], [0, 1, 2, 3]):
                pairs = [(i, j) for i in range(n) for j in range(n) if (not und or i <= j)]
                total = 1 << len(pairs)
                lim = scale(tier, 64, 512)
                for mask in (range(total) if total <= lim else [rng.randrange(total) for _ in range(lim)]):
                    es = [p for b, p in enumerate(pairs) if mask >> b & 1]
                    labels = [bin_label_tok(rng, kind) for _ in es]
                    ops = ["mode quiet"] + graph_ops_labelled(cls, kind, n, es, labels)
                    ops += [f"writebin 0 {kind}", f"roundtripbin 0 1 {kind}", "mode verbose", "dump 1", f"resize 1 {n}", "eq 0 1", "eq 1 0"]
                    yield ({"cls": cls, "kind": kind, "n": n, "len": len(ops), "exh": total <= lim}, ops)
    for _ in range(scale(tier, 1200, 25000)):
        cls = rng.choice(SIMPLE)
        kind = rng.choice(BIN_KINDS)
        n = rng.randint(0, scale(tier, 8, 14))
        es = rand_edges(rng, n)
        if cls == "und":
            es = und_canon(es)
        labels = [bin_label_tok(rng, kind) for _ in es]
        ops = ["mode quiet"] + graph_ops_labelled(cls, kind, n, es, labels)
        ops += [f"roundtripbin 0 1 {kind}", "mode verbose", "dump 1", f"resize 1 {n}", "eq 0 1"]
        yield ({"cls": cls, "kind": kind, "n": n, "len": len(ops)}, ops)
    # hand-made files: records in any order, repeated records
    for _ in range(scale(tier, 1500, 25000)):
        cls = rng.choice(SIMPLE)
        kind = rng.choice(BIN_KINDS)
        recs = [(rng.randint(0, 9), rng.randint(0, 9), bin_label_tok(rng, kind)) for _ in range(rng.randint(0, 8))]
        rng.shuffle(recs)
        yield ({"cls": cls, "kind": kind, "n": 0, "len": 1}, [f"loadbin 0 {cls} {kind} {hexs(bin_file(kind, recs))}", "dump 0"])
    # multi-byte vertex indices: every byte of the 32-bit little-endian fields carries information
    for it in range(scale(tier, 40, 600)):
        cls = rng.choice(SIMPLE)
        kind = rng.choice(BIN_KINDS)
        three = (it % 10 == 0)    # a 3-byte index (0x010203): load and point queries only
        pool = [0, 1, 2, 255, 256, 257, 300, 4660] + ([66051] if three else [])
        recs = [(rng.choice(pool), rng.choice(pool), bin_label_tok(rng, kind)) for _ in range(rng.randint(1, 6))]
        if three:
            recs.append((66051, rng.choice(pool), bin_label_tok(rng, kind)))
        rng.shuffle(recs)
        n = max(max(i, j) for (i, j, _) in recs) + 1
        ops = ["mode quiet", f"loadbin 0 {cls} {kind} {hexs(bin_file(kind, recs))}"]
        for (i, j, _) in recs:
            ops += [f"q 0 hasEdge {i} {j}", f"q 0 hasEdge {j} {i}"]
        ops += [f"q 0 hasEdge {n} 0", f"q 0 hasEdge {n - 1} 0", f"q 0 getOutNeighbours {n - 1}"]
        if not three:
            ops += [f"writebin 0 {kind}", f"roundtripbin 0 1 {kind}", "eq 0 1", "eq 1 0"]
        yield ({"cls": cls, "kind": kind, "n": n, "len": len(ops), "family": "big-index"}, ops)
    for _ in range(scale(tier, 30, 400)):
        cls = rng.choice(SIMPLE)
        kind = rng.choice(BIN_KINDS)
        pool = [0, 1, 255, 256, 257, 300, 4660]
        n = rng.choice([258, 301, 4661])
        pool = [v for v in pool if v < n]
        es = list({(rng.choice(pool), rng.choice(pool)) for _ in range(rng.randint(1, 8))})
        if cls == "und":
            es = und_canon(es)
        rng.shuffle(es)
        labels = [bin_label_tok(rng, kind) for _ in es]
        ops = ["mode quiet"] + graph_ops_labelled(cls, kind, n, es, labels)
        ops += [f"writebin 0 {kind}", f"roundtripbin 0 1 {kind}"]
        for (i, j) in es:
            ops += [f"q 1 hasEdge {i} {j}", f"q 1 getOutNeighbours {i}"]
        m = max(max(e) for e in es) + 1
        ops += [f"q 1 hasEdge {m} 0", f"q 1 hasEdge {m - 1} 0", f"resize 1 {n}", "eq 0 1", "eq 1 0"]
        yield ({"cls": cls, "kind": kind, "n": n, "len": len(ops), "family": "big-index"}, ops)
    # the byte-swapping primitive of the big-endian code path, and the endianness probe
    for kind in BIN_KINDS:
        if kind == "none":
            continue
        toks = {"chr": [0, 1, -1, 65, 127, -128], "i16": [0, 1, -1, 300, 32767, -32768, 258],
                "int": [0, 1, -1, 70000, 2147483647, -2147483648, 16909060], "uint": [0, 1, 255, 256, 65536, 4294967295, 16909060],
                "i64": [0, 1, -1, 2 ** 40 + 3, -(2 ** 40) - 3, 72623859790382856], "flt": [0, 1, -1, 6, -37, 1024, 3], "dbl": [0, 1, -1, 6, -37, 1024, 3]}[kind]
        ops = [f"swapbytes {kind} {t}" for t in toks]
        yield ({"cls": "-", "kind": kind, "n": 0, "len": len(ops), "family": "swapbytes"}, ops)
    # a file that cannot be opened: all six routines
    for cls in SIMPLE:
        for kind in ["none", "int"]:
            ops = [f"openfail 0 {r} {cls} {kind}" for r in ("loadtext", "loadtextnamed", "loadbin", "writetext", "writebin")]
            yield ({"cls": cls, "kind": kind, "n": 0, "len": len(ops)}, ops)


def malformed_text(rng):
    base = wellformed_text(rng, rng.choice(TEXT_KINDS), False).decode("latin1")
    muts = rng.randint(1, 3)
    lines = base.split("\n")
    for _ in range(muts):
        m = rng.choice(["blank", "onetok", "neg", "overflow", "alpha", "stray", "empty", "onlyws", "hash-late", "bigneg"])
        pos = rng.randint(0, len(lines))
        if m == "blank":
            lines.insert(pos, "")
        elif m == "onetok":
            lines.insert(pos, rng.choice(["7", " 7", "7 ", "abc"]))
        elif m == "neg":
            lines.insert(pos, rng.choice(["-1 0", "0 -1", "-0 1", "3 -2 5"]))
        elif m == "overflow":
            lines.insert(pos, rng.choice(["99999999999 0", "0 2147483648", "4294967296 1", "-99999999999 0"]))
        elif m == "alpha":
            lines.insert(pos, rng.choice(["a b", "x 1", "1 y 3", "1x 2y", "0x10 1"]))
        elif m == "stray":
            lines.insert(pos, "".join(chr(rng.choice([0, 1, 127, 128, 200, 255, 35, 32, 9, 48, 49])) for _ in range(rng.randint(1, 6))))
        elif m == "empty":
            lines = []
        elif m == "onlyws":
            lines.insert(pos, rng.choice([" ", "\t", " \t ", "\r"]))
        elif m == "hash-late":
            lines.insert(pos, " # 1 2")
        elif m == "bigneg":
            lines.insert(pos, "-2147483648 0")
    return "\n".join(lines).encode("latin1")


def wl_C15(tier, rng):
    # every cut offset of every generated binary file
    for it in range(scale(tier, 120, 2500)):
        cls = rng.choice(SIMPLE)
        kind = rng.choice(BIN_KINDS)
        recs = [(rng.randint(0, 6), rng.randint(0, 6), bin_label_tok(rng, kind)) for _ in range(rng.randint(1, 4))]
        data = bin_file(kind, recs)
        ops = ["mode quiet"]
        for cut in range(len(data) + 1):
            ops += [f"loadbin 0 {cls} {kind} {hexs(data[:cut])}", "dump 0"]
        yield ({"cls": cls, "kind": kind, "n": 0, "len": len(ops), "exh": True}, ops)
    # every cut of files whose indices use two bytes (a cut inside an index leaves a plausible smaller one)
    for it in range(scale(tier, 6, 120)):
        cls = rng.choice(SIMPLE)
        kind = rng.choice(BIN_KINDS)
        recs = [(rng.choice([1, 255, 256, 257, 300]), rng.choice([0, 2, 256, 258, 299]), bin_label_tok(rng, kind)) for _ in range(rng.randint(1, 2))]
        data = bin_file(kind, recs)
        ops = ["mode quiet"]
        for cut in range(len(data) + 1):
            ops += [f"loadbin 0 {cls} {kind} {hexs(data[:cut])}", f"writebin 0 {kind}", "q 0 hasEdge 1 0", "q 0 hasEdge 255 2", "q 0 hasEdge 300 0", "q 0 getOutNeighbours 44"]
        yield ({"cls": cls, "kind": kind, "n": 0, "len": len(ops), "family": "big-index"}, ops)
    # truncated text files (every cut of a small file)
    for it in range(scale(tier, 60, 1200)):
        cls = rng.choice(SIMPLE)
        kind = rng.choice(TEXT_KINDS)
        data = wellformed_text(rng, kind, False, n_lines=3)
        ops = ["mode quiet"]
        for cut in range(len(data) + 1):
            ops += [f"loadtext 0 {cls} {kind} {hexs(data[:cut])}"]
        yield ({"cls": cls, "kind": kind, "n": 0, "len": len(ops), "exh": True}, ops)
    # malformed text
    for _ in range(scale(tier, 4000, 80000)):
        cls = rng.choice(SIMPLE)
        kind = rng.choice(TEXT_KINDS)
        data = malformed_text(rng)
        verb = rng.choice(["loadtext", "loadtext", "loadtextnamed"])
        yield ({"cls": cls, "kind": kind, "n": 0, "len": 1}, ["mode quiet", f"{verb} 0 {cls} {kind} {hexs(data)}", "dump 0"])
    # arbitrary bytes offered as binary edge lists with small indices
    for _ in range(scale(tier, 500, 10000)):
        cls = rng.choice(SIMPLE)
        kind = rng.choice(BIN_KINDS)
        nrec = rng.randint(0, 4)
        data = b""
        for _ in range(nrec):
            data += struct.pack("<II", rng.randint(0, 5), rng.randint(0, 5))
            f = BIN_FMT[kind]
            if f:
                data += bytes(rng.randrange(256) for _ in range(struct.calcsize(f))) if kind not in ("flt", "dbl") else struct.pack(f, rng.choice([0.0, 1.5, -2.25, 8.0]))
        data += bytes(rng.randrange(256) for _ in range(rng.randint(0, 3)))   # trailing partial garbage (< 4 bytes)
        yield ({"cls": cls, "kind": kind, "n": 0, "len": 1}, ["mode quiet", f"loadbin 0 {cls} {kind} {hexs(data)}", "dump 0"])


WORKLOADS = {
    "C01": wl_C01, "C02": wl_C02, "C03": wl_C03, "C04": wl_C04, "C05": wl_C05, "C06": wl_C06,
    "C07": wl_C07, "C08": wl_C08, "C09": wl_C09, "C10": wl_C10, "C16": wl_C16,
    "C11": wl_C11, "C12": wl_C12, "C19": wl_C19,
    "C13": wl_C13, "C14": wl_C14, "C15": wl_C15,
}

# dump-line prefixes each property constrains (R = outcome lines incl. eq/query results)
PROJECTION = {
    "C01": ("R", "D", "N", "H", "O", "M", "V", "E"),
    "C02": ("K", "R", "D", "N", "H", "G", "M", "V", "E"),
    "C03": ("R", "L", "H"),
    "C04": ("K", "R", "D", "N", "H", "X", "O", "G", "M", "E"),
    "C05": ("K", "R", "D", "N", "H", "W", "O", "G", "M", "E"),
    "C06": ("R", "D", "N", "H", "L", "X", "W"),
    "C07": ("K", "R", "D", "N", "H", "L", "X", "W", "O", "G", "M", "E", "V"),
    "C08": ("R", "E", "V", "O", "M", "G"),
    "C09": ("R", "D", "N", "H", "L", "X", "W"),
    "C10": ("R", "D", "N", "H", "L"),
    "C16": ("K", "R", "D", "N", "H", "E", "M", "O", "G", "X", "W"),
    "C11": ("R", "P"),
    "C12": ("R", "P"),
    "C13": ("R", "F", "D", "N", "H", "L"),
    "C14": ("R", "F", "D", "N", "H", "L"),
    "C15": ("R", "D", "N", "H", "L"),
}
