"""gen.py — history generators.  Every random choice derives from one random.Random(seed).

A *history* is (meta: dict, ops: list[str]).  Slot 0 is the graph under test unless noted.
Generators produce structured, mostly-valid inputs; the invalid-call stream (C07) is separate.
"""
import itertools
import random

KINDS_ALL = ["none", "int", "uint", "dbl", "chr", "str", "pt"]
KINDS_LAB = ["int", "uint", "dbl", "chr", "str", "pt"]
SIMPLE = ["dir", "und"]
MULTI = ["dmulti", "umulti"]
WEIGHTED = ["dw", "uw"]
ALL_CLASSES = SIMPLE + MULTI + WEIGHTED


def label_tok(rng, kind):
    if kind == "none":
        return 0
    if kind == "uint":
        return rng.randint(0, 9)
    if kind == "str":
        return rng.randint(0, 9)
    return rng.randint(-3, 9)


def ftok(rng, f):
    """force flag token: the flag, or `d` (argument left out: the overload / default argument) when it is 0"""
    return "d" if (not f and rng.random() < 0.3) else f


def pick_pair(rng, n, loops=0.2):
    """a vertex pair in range; self-loops over-sampled"""
    if rng.random() < loops:
        v = rng.randrange(n)
        return v, v
    return rng.randrange(n), rng.randrange(n)


def new_line(slot, cls, kind, n):
    return f"new {slot} {cls} {kind if cls in SIMPLE else '-'} {n}"


# ------------------------------------------------------------------ op alphabets
def front_op(rng, n, present):
    """`g.removeEdge(v, g.getOutNeighbours(v).front())`: an argument that refers into the list being edited"""
    if present and rng.random() < 0.8:
        v = rng.choice(sorted(present))[rng.choice([0, 0, 1])]
    else:
        v = rng.randrange(n)
    return f"removeFrontEdge 0 {v}"


def op_simple(rng, cls, kind, n, present, force_p=0.0, setlabel=True, dedup=False, weights=None):
    """one valid op for dir/und with n >= 1 vertices; `present` = set of pairs believed present
    (used only to bias choices toward interesting cases, never trusted)."""
    w = weights or {}
    choices = [("addEdge", 40), ("removeEdge", 18), ("removeSelfLoops", 3),
               ("removeVertexFromEdgeList", 6), ("clearEdges", 2), ("resize", 4), ("removeFrontEdge", 5)]
    if cls == "dir":
        choices.append(("addReciprocalEdge", 6))
    if setlabel and kind != "none":
        choices.append(("setEdgeLabel", 12))
    if dedup:
        choices.append(("removeDuplicateEdges", 8))
    names = [c[0] for c in choices]
    ws = [w.get(c[0], c[1]) for c in choices]
    verb = rng.choices(names, ws)[0]
    if verb == "removeFrontEdge":
        return front_op(rng, n, present)
    if verb in ("addEdge", "addReciprocalEdge"):
        if present and rng.random() < 0.25:
            i, j = rng.choice(sorted(present))
            if cls == "und" and rng.random() < 0.5:
                i, j = j, i
        else:
            i, j = pick_pair(rng, n)
        f = 1 if rng.random() < force_p else 0
        present.add((i, j))
        return f"{verb} 0 {i} {j} {label_tok(rng, kind)} {ftok(rng, f)}"
    if verb == "removeEdge":
        if present and rng.random() < 0.7:
            i, j = rng.choice(sorted(present))
            if cls == "und" and rng.random() < 0.5:
                i, j = j, i
        else:
            i, j = pick_pair(rng, n)
        present.discard((i, j))
        return f"removeEdge 0 {i} {j}"
    if verb == "setEdgeLabel":
        # unforced on anything (may throw invalid_argument = valid documented outcome);
        # forced only on pairs believed present is NOT safe (belief may be stale) -> never forced here
        if present and rng.random() < 0.8:
            i, j = rng.choice(sorted(present))
            if cls == "und" and rng.random() < 0.5:
                i, j = j, i
        else:
            i, j = pick_pair(rng, n)
        return f"setEdgeLabel 0 {i} {j} {label_tok(rng, kind)} 0"
    if verb == "removeVertexFromEdgeList":
        v = rng.randrange(n)
        for p in [p for p in present if v in p]:
            present.discard(p)
        return f"removeVertexFromEdgeList 0 {v}"
    if verb == "resize":
        return f"resize 0 {n + rng.randint(0, 2)}"
    if verb == "clearEdges":
        present.clear()
    return f"{verb} 0"


def op_multi(rng, cls, n, present, force_p=0.0, dedup=False):
    choices = [("addEdge", 14), ("addMultiedge", 26), ("removeEdge", 10), ("removeMultiedge", 14),
               ("setEdgeMultiplicity", 16), ("removeSelfLoops", 3), ("removeVertexFromEdgeList", 6),
               ("clearEdges", 2), ("resize", 4), ("removeFrontEdge", 5)]
    if cls == "dmulti":
        choices += [("addReciprocalEdge", 3), ("addReciprocalMultiedge", 3)]
    if dedup:
        choices.append(("removeDuplicateEdges", 8))
    verb = rng.choices([c[0] for c in choices], [c[1] for c in choices])[0]
    if verb == "removeFrontEdge":
        return front_op(rng, n, present)

    def pair(bias=0.6):
        if present and rng.random() < bias:
            i, j = rng.choice(sorted(present))
            if cls == "umulti" and rng.random() < 0.5:
                i, j = j, i
            return i, j
        return pick_pair(rng, n)
    f = 1 if rng.random() < force_p else 0
    if verb == "addEdge":
        i, j = pair(0.3); present.add((i, j)); return f"addEdge 0 {i} {j} {ftok(rng, f)}"
    if verb == "addMultiedge":
        i, j = pair(0.3); present.add((i, j)); return f"addMultiedge 0 {i} {j} {rng.choice([0, 1, 1, 2, 3, 5])} {ftok(rng, f)}"
    if verb == "addReciprocalEdge":
        i, j = pair(0.3); present.add((i, j)); return f"addReciprocalEdge 0 {i} {j} {ftok(rng, f)}"
    if verb == "addReciprocalMultiedge":
        i, j = pair(0.3); present.add((i, j)); return f"addReciprocalMultiedge 0 {i} {j} {rng.choice([0, 1, 2, 3])} {ftok(rng, f)}"
    if verb == "removeEdge":
        i, j = pair(); return f"removeEdge 0 {i} {j}"
    if verb == "removeMultiedge":
        i, j = pair(); return f"removeMultiedge 0 {i} {j} {rng.choice([0, 1, 2, 3, 7])}"
    if verb == "setEdgeMultiplicity":
        i, j = pair(); present.add((i, j)); return f"setEdgeMultiplicity 0 {i} {j} {rng.choice([0, 0, 1, 2, 3, 4])}"
    if verb == "removeVertexFromEdgeList":
        return f"removeVertexFromEdgeList 0 {rng.randrange(n)}"
    if verb == "resize":
        return f"resize 0 {n + rng.randint(0, 2)}"
    return f"{verb} 0"


def op_weighted(rng, cls, n, present, force_p=0.0, dedup=False, wlo=-8, whi=16):
    choices = [("addEdge", 36), ("setEdgeWeight", 20), ("removeEdge", 18), ("removeSelfLoops", 3),
               ("removeVertexFromEdgeList", 6), ("clearEdges", 2), ("resize", 4), ("removeFrontEdge", 5)]
    if cls == "dw":
        choices.append(("addReciprocalEdge", 3))
    if dedup:
        choices.append(("removeDuplicateEdges", 8))
    verb = rng.choices([c[0] for c in choices], [c[1] for c in choices])[0]
    if verb == "removeFrontEdge":
        return front_op(rng, n, present)

    def pair(bias=0.6):
        if present and rng.random() < bias:
            i, j = rng.choice(sorted(present))
            if cls == "uw" and rng.random() < 0.5:
                i, j = j, i
            return i, j
        return pick_pair(rng, n)
    f = 1 if rng.random() < force_p else 0
    if verb == "addEdge":
        i, j = pair(0.3); present.add((i, j)); return f"addEdge 0 {i} {j} {rng.randint(wlo, whi)} {ftok(rng, f)}"
    if verb == "addReciprocalEdge":
        i, j = pair(0.3); present.add((i, j)); return f"addReciprocalEdge 0 {i} {j} {rng.randint(0, 1)}"
    if verb == "setEdgeWeight":
        i, j = pair(0.7); present.add((i, j)); return f"setEdgeWeight 0 {i} {j} {rng.randint(wlo, whi)}"
    if verb == "removeEdge":
        i, j = pair(); return f"removeEdge 0 {i} {j}"
    if verb == "removeVertexFromEdgeList":
        return f"removeVertexFromEdgeList 0 {rng.randrange(n)}"
    if verb == "resize":
        return f"resize 0 {n + rng.randint(0, 2)}"
    return f"{verb} 0"


def track_size(op, n):
    t = op.split()
    if t[0] == "resize":
        return max(n, int(t[2]))
    return n


def random_history(rng, cls, kind, nmax=8, lmax=40, **kw):
    """a mostly-valid random history on one graph"""
    n = rng.choice([0, 1, 1, 2, 2, 3, 3, 4, 5, 6, 8, 10][: max(3, nmax + 2)])
    n = min(n, nmax)
    ops = [new_line(0, cls, kind, n)]
    present = set()
    length = rng.randint(1, lmax)
    for _ in range(length):
        if n == 0:
            n2 = rng.randint(1, 3)
            ops.append(f"resize 0 {n2}")
            n = n2
            continue
        if cls in SIMPLE:
            op = op_simple(rng, cls, kind, n, present, **kw)
        elif cls in MULTI:
            op = op_multi(rng, cls, n, present, **{k: v for k, v in kw.items() if k in ("force_p", "dedup")})
        else:
            op = op_weighted(rng, cls, n, present, **{k: v for k, v in kw.items() if k in ("force_p", "dedup", "wlo", "whi")})
        ops.append(op)
        n = track_size(op, n)
    return ({"cls": cls, "kind": kind, "n": n, "len": len(ops) - 1}, ops)


# ------------------------------------------------------------------ exhaustive small scopes
def alphabet_simple(cls, kind, n, labels=(1, 2), force=(0,), setlabel=True, dedup=False):
    al = []
    pairs = [(i, j) for i in range(n) for j in range(n)]
    for (i, j) in pairs:
        for l in (labels if kind != "none" else (0,)):
            for f in force:
                al.append(f"addEdge 0 {i} {j} {l} {f}")
        al.append(f"removeEdge 0 {i} {j}")
        if setlabel and kind != "none":
            al.append(f"setEdgeLabel 0 {i} {j} 3 0")
    if cls == "dir":
        for (i, j) in pairs:
            if i <= j:
                al.append(f"addReciprocalEdge 0 {i} {j} {labels[0] if kind != 'none' else 0} {force[0]}")
    for v in range(n):
        al.append(f"removeVertexFromEdgeList 0 {v}")
    al += ["removeSelfLoops 0", "clearEdges 0", f"resize 0 {n + 1}"]
    if dedup:
        al.append("removeDuplicateEdges 0")
    return al


def alphabet_multi(cls, n, mults=(0, 1, 2), force=(0,), dedup=False):
    al = []
    pairs = [(i, j) for i in range(n) for j in range(n)]
    for (i, j) in pairs:
        for f in force:
            al.append(f"addEdge 0 {i} {j} {f}")
            for k in mults:
                if k:
                    al.append(f"addMultiedge 0 {i} {j} {k} {f}")
        al.append(f"addMultiedge 0 {i} {j} 0 0")
        al.append(f"removeEdge 0 {i} {j}")
        for k in mults:
            al.append(f"removeMultiedge 0 {i} {j} {k}")
            al.append(f"setEdgeMultiplicity 0 {i} {j} {k}")
    for v in range(n):
        al.append(f"removeVertexFromEdgeList 0 {v}")
    al += ["removeSelfLoops 0", "clearEdges 0", f"resize 0 {n + 1}"]
    if dedup:
        al.append("removeDuplicateEdges 0")
    return al


def alphabet_weighted(cls, n, ws=(-4, 0, 1, 8), force=(0,), dedup=False):
    al = []
    pairs = [(i, j) for i in range(n) for j in range(n)]
    for (i, j) in pairs:
        for w in ws:
            for f in force:
                al.append(f"addEdge 0 {i} {j} {w} {f}")
            al.append(f"setEdgeWeight 0 {i} {j} {w}")
        al.append(f"removeEdge 0 {i} {j}")
    for v in range(n):
        al.append(f"removeVertexFromEdgeList 0 {v}")
    al += ["removeSelfLoops 0", "clearEdges 0", f"resize 0 {n + 1}"]
    if dedup:
        al.append("removeDuplicateEdges 0")
    return al


def exhaustive(cls, kind, n, alphabet, k, limit=None, rng=None):
    """all op sequences of length exactly k over `alphabet` (or a random sample of `limit`)"""
    total = len(alphabet) ** k
    head = new_line(0, cls, kind, n)
    if limit is None or total <= limit:
        for seq in itertools.product(alphabet, repeat=k):
            yield ({"cls": cls, "kind": kind, "n": n, "len": k, "exh": True}, [head] + list(seq))
    else:
        for _ in range(limit):
            seq = [rng.choice(alphabet) for _ in range(k)]
            yield ({"cls": cls, "kind": kind, "n": n, "len": k, "exh": False}, [head] + seq)


def build_ops(cls, kind, n, edges, rng=None, labels=None):
    """ops creating a given edge list (in the given order) in slot 0"""
    ops = [new_line(0, cls, kind, n)]
    for idx, (i, j) in enumerate(edges):
        l = labels[idx] if labels else (label_tok(rng, kind) if rng else 1)
        if cls in SIMPLE:
            ops.append(f"addEdge 0 {i} {j} {l} 0")
        elif cls in MULTI:
            ops.append(f"addMultiedge 0 {i} {j} {abs(l) % 3 + 1} 0")
        else:
            ops.append(f"addEdge 0 {i} {j} {l} 0")
    return ops
