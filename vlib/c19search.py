"""c19search.py — guided search for a failing input of C19 once the Dijkstra correspondence has broken.

The model's Dijkstra replays the implementation's pop sequence; when that sequence is not one the model can
produce (a popped vertex is not a minimum of the worklist) the correspondence is broken, but the property
(at most V+E+1 neighbourhood scans) need not fail on the histories of the workload: a worklist that is only
slightly out of order re-expands a few vertices and stays far below the bound on random graphs.  This module
looks for a graph on which the *implementation* exceeds the bound, by hill climbing on scans / (E+1) over
the weights and the edge set of small sparse digraphs (restarts in parallel, one PRNG per restart, all derived
from the check's seed).  A candidate is returned as a history; the caller re-runs it through the ordinary
comparison, so nothing is reported that the usual path does not confirm.  A search, not a proof: it only
ever turns `no-failing-input-found` into a concrete replay.
"""
import concurrent.futures as cf
import random
import subprocess
import time

from . import gen


def _ops(cls, n, wes, sources):
    ops = ["mode quiet", gen.new_line(0, cls, "-", n)]
    ops += [f"addEdge 0 {i} {j} {w} 0" for (i, j), w in sorted(wes.items())]
    return ops + [f"dijkstra 0 {s}" for s in sources]


def _eval(harness, cls, n, wes):
    """(best ratio*1000 of scans to E+1, best excess over V+E+1, source of the best excess)"""
    text = "\n".join(_ops(cls, n, wes, range(n))) + "\n"
    try:
        p = subprocess.run([harness, "/dev/null"], input=text.encode(), stdout=subprocess.PIPE, stderr=subprocess.DEVNULL, timeout=20)
    except subprocess.TimeoutExpired:
        return -1, -10 ** 9, 0
    ratio, excess, src, k = -1, -10 ** 9, 0, 0
    for l in p.stdout.decode("utf-8", "replace").split("\n"):
        if l.startswith("P ") and "| scans: n=" in l and "| VE: " in l:
            try:
                sc = int(l.split("| scans: n=")[1].split()[0])
                v, e = map(int, l.split("| VE: ")[1].split())
            except (ValueError, IndexError):
                continue
            ratio = max(ratio, sc * 1000 // (e + 1))
            if sc - (v + e + 1) > excess:
                excess, src = sc - (v + e + 1), k
            k += 1
    return ratio, excess, src


def _climb(harness, seed, deadline, stop, counter):
    rng = random.Random(seed)
    while time.time() < deadline and not stop["found"]:
        cls = "dw" if rng.random() < 0.8 else "uw"
        n = rng.randint(8, 14)
        wes = {}
        while len(wes) < rng.randint(2 * n, 5 * n // 2):
            a, b = rng.randrange(n), rng.randrange(n)
            if a != b and (cls == "dw" or a < b):
                wes[(a, b)] = rng.randint(0, 30)
        cur, ex, src = _eval(harness, cls, n, wes)
        counter[0] += 1
        for _ in range(4000):
            if time.time() > deadline or stop["found"]:
                break
            if ex > 0:
                stop["found"] = True
                return _ops(cls, n, wes, [src])
            w2 = dict(wes)
            if rng.random() < 0.6:
                w2[rng.choice(sorted(w2))] = rng.randint(0, 30)
            else:
                a, b = rng.randrange(n), rng.randrange(n)
                if a == b or (cls == "uw" and a > b) or (a, b) in w2:
                    continue
                del w2[rng.choice(sorted(w2))]
                w2[(a, b)] = rng.randint(0, 30)
            c, e2, s2 = _eval(harness, cls, n, w2)
            counter[0] += 1
            if c >= cur:
                wes, cur, ex, src = w2, c, e2, s2
    return None


def search(harness, seed, budget_s=90, workers=12):
    """returns (history or None, number of graphs evaluated)"""
    deadline = time.time() + budget_s
    stop = {"found": False}
    counter = [0]
    with cf.ThreadPoolExecutor(max_workers=workers) as ex:
        futs = [ex.submit(_climb, harness, (seed * 1000003 + k) & 0xffffffff, deadline, stop, counter) for k in range(workers)]
        found = None
        for f in futs:
            r = f.result()
            if r is not None and found is None:
                found = r
    return found, counter[0]
