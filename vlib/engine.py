"""engine.py — correspondence engine: run histories on implementation and model, compare,
classify (property violated on the implementation vs. mere divergence from the model), shrink.
"""
import concurrent.futures as cf
import subprocess
import threading
import time
import hashlib
import os
import collections

from . import core

# ------------------------------------------------------------------ projections
# A projection keeps, from the dump after a step, the lines the property talks about and
# canonicalises what the property leaves free (order of neighbour lists / of edges()).
def _canon_line(l, sort_lists, strip_scans=False):
    if not sort_lists:
        return l
    if l.startswith("N "):
        head, _, rest = l.partition(": ")
        return head + ": " + " ".join(sorted(rest.split(), key=lambda x: (len(x), x)))
    if l.startswith("P ") and strip_scans and "| scans: " in l:
        return l.split("| scans: ")[0]
    if l.startswith("E pre: "):
        try:
            pre, rest = l[len("E pre: "):].split(" | post: ")
            post, be = rest.split(" | be=")
            return "E pre: " + " ".join(sorted(pre.split())) + " | post: " + " ".join(sorted(post.split())) + " | be=" + be
        except ValueError:
            return l
    return l


def make_projection(prefixes, sort_lists=True, strip_scans=False):
    prefixes = tuple(prefixes)

    def proj(step_out):
        return [_canon_line(l, sort_lists, strip_scans) for l in step_out if l.startswith(prefixes)]
    return proj


def c19_projection(step_out):
    """C19 constrains only the number of neighbourhood scans: <= V (bfs), <= V+E (allpred),
    <= V+E+1 (dijkstra).  The P line carries `scans: …` and `VE: V E`."""
    out = []
    for l in step_out:
        if l.startswith("R "):
            out.append(l.split(" ", 2)[1] if l.startswith("R !") else "R ok")
        elif l.startswith("P ") and "| VE: " in l and "| scans: " in l:
            try:
                v, e = map(int, l.split("| VE: ")[1].split())
                sc = l.split("| scans: ")[1].split(" |")[0].split()
                if "preds:" in l:
                    kind, count, bound = "allpred", len(sc), v + e
                elif len(sc) == 1 and sc[0].startswith("n="):
                    # Dijkstra prints the number of scans (`n=<count>`), the searches by hop count the scanned vertices
                    kind, count, bound = "dijkstra", int(sc[0][2:]), v + e + 1
                else:
                    kind, count, bound = "bfs", len(sc), v
                out.append(f"{kind} scans_within_bound={count <= bound}")
            except (ValueError, IndexError):
                out.append(l)
    return out


ALL_PREFIXES = ("R", "D", "N", "H", "E", "V", "L", "O", "M", "G", "X", "W", "P", "T", "F", "bad-op")


# ------------------------------------------------------------------ comparison of one history
def compare_history(impl_lines, model_lines, proj):
    """returns None when equal; else dict(kind='violation'|'diverge', step=idx, op=..., impl=[...], model=[...])"""
    si = core.split_steps(impl_lines)
    sm = core.split_steps(model_lines)
    n = max(len(si), len(sm))
    first_div = None
    for k in range(n):
        a = si[k] if k < len(si) else ("<missing>", ["<implementation produced no output: crashed or aborted>"])
        b = sm[k] if k < len(sm) else ("<missing>", ["<model produced no output>"])
        if a[1] != b[1] or a[0] != b[0]:
            pa, pb = proj(a[1]), proj(b[1])
            crashed = k >= len(si)
            # C19's relation (scan count within the bound) is decided on the implementation's own output: the
            # model replays the implementation's pop sequence, so its count is the same when that sequence is not
            # one the model can produce (it then adds a T line) -- the excess is a violation all the same
            if pa != pb or crashed or any(isinstance(x, str) and x.endswith("scans_within_bound=False") for x in pa):
                return dict(kind="violation", step=k, op=b[0] if k < len(sm) else a[0], impl=a[1], model=b[1],
                            pimpl=pa, pmodel=pb)
            if first_div is None:
                first_div = dict(kind="diverge", step=k, op=b[0], impl=a[1], model=b[1], pimpl=pa, pmodel=pb)
    return first_div


def run_one(ops, harness, proj, tag="one"):
    """run a single history; returns (mismatch-or-None, result dict)"""
    text = "\n".join(ops) + "\nreset\n"
    try:
        r = core.run_pair(text, harness, tag=tag, harness_env={"BGH_FLUSH": "1"}, timeout=ONE_TIMEOUT)
    except subprocess.TimeoutExpired:
        m = dict(kind="violation", step=-1, op="<timeout>", impl=[f"<no result within {ONE_TIMEOUT}s: the call does not terminate in reasonable time>"],
                 model=[], pimpl=[], pmodel=[], impl_rc=-9, impl_err="timeout")
        return m, dict(impl="", model="", impl_rc=-9, model_rc=0, impl_err="timeout", model_err="")
    hi = core.split_histories(r["impl"])
    hm = core.split_histories(r["model"])
    mi = hi[0] if hi else []
    mm = hm[0] if hm else []
    mm_res = compare_history(mi, mm, proj)
    if mm_res is None and r["impl_rc"] != 0:
        mm_res = dict(kind="violation", step=len(core.split_steps(mi)), op="<crash>", impl=["<crash>"], model=[], pimpl=[], pmodel=[])
    if mm_res is not None:
        mm_res["impl_rc"] = r["impl_rc"]
        mm_res["impl_err"] = r["impl_err"][-4000:]
    return mm_res, r


# ------------------------------------------------------------------ shrinking (ddmin)
def shrink(ops, harness, proj, want_kind, budget=120):
    """delta-debugging on the op list (line 0 is kept); preserves the failure kind"""
    runs = [0]

    def fails(cand):
        runs[0] += 1
        m, _ = run_one(cand, harness, proj, tag="shrink")
        return m is not None and m["kind"] == want_kind

    head, body = ops[:1], ops[1:]
    n = 2
    while len(body) >= 2 and runs[0] < budget:
        chunk = max(1, len(body) // n)
        reduced = False
        for start in range(0, len(body), chunk):
            cand = body[:start] + body[start + chunk:]
            if cand and fails(head + cand):
                body = cand
                n = max(n - 1, 2)
                reduced = True
                break
            if runs[0] >= budget:
                break
        if not reduced:
            if chunk == 1:
                break
            n = min(n * 2, len(body))
    # try dropping single trailing/leading ops once more
    k = 0
    while k < len(body) and runs[0] < budget:
        cand = body[:k] + body[k + 1:]
        if fails(head + cand):
            body = cand
        else:
            k += 1
    return head + body


# ------------------------------------------------------------------ bulk run
class Stats:
    def __init__(self):
        self.evaluations = 0
        self.steps = 0
        self.changing_steps = 0
        self.nontrivial_hashes = set()
        self.verbs = collections.Counter()
        self.outcomes = collections.Counter()
        self.sizes = collections.Counter()
        self.classes = collections.Counter()
        self.samples = []
        self.exhaustive_scopes = []

    def coverage(self):
        return {
            "evaluations": self.evaluations,
            "distinct_nontrivial": len(self.nontrivial_hashes),
            "steps_compared": self.steps,
            "steps_that_changed_state": self.changing_steps,
            "op_histogram": dict(self.verbs.most_common()),
            "outcome_histogram": dict(self.outcomes.most_common()),
            "graph_size_histogram": {str(k): v for k, v in sorted(self.sizes.items())},
            "class_histogram": dict(self.classes.most_common()),
            "samples": self.samples[:6],
        }


MUTATING_VERBS = {"addEdge", "addMultiedge", "addReciprocalEdge", "addReciprocalMultiedge", "removeEdge", "removeMultiedge",
                  "setEdgeMultiplicity", "setEdgeWeight", "setEdgeLabel", "removeVertexFromEdgeList", "ctor", "loadtext",
                  "loadtextnamed", "loadbin", "roundtriptext", "roundtripbin"}


def _account(stats, meta, ops, model_lines):
    stats.evaluations += 1
    steps = core.split_steps(model_lines)
    stats.steps += len(steps)
    changed = 0
    last = {}
    for op, out in steps:
        t = op.split()
        stats.verbs[t[0] if t[0] != "q" else "q:" + (t[2] if len(t) > 2 else "?")] += 1
        for l in out:
            if l.startswith("R "):
                w = l.split()
                stats.outcomes[w[1] if (l.startswith("R !") or l.startswith("R eq=")) else "ok"] += 1
                break
        # state change: dump blocks per slot differ from the last one seen
        cur, key = [], None
        blocks = {}
        for l in out:
            if l.startswith("D "):
                key = l.split()[1]
                blocks[key] = []
            if key is not None:
                blocks[key].append(l)
        ch = False
        if not blocks and out and out[0].startswith("R ok"):
            # quiet mode (no dump after the step): a successful mutator / constructor / loader, or a
            # search / file routine that produced a result line, counts as a non-trivial step
            verb = t[0]
            if any(l.startswith(("P ", "F ")) for l in out) or verb in MUTATING_VERBS:
                ch = True
        for k, b in blocks.items():
            if k in last and last[k] != b:
                ch = True
            last[k] = b
        if ch:
            changed += 1
    stats.changing_steps += changed
    if changed:
        stats.nontrivial_hashes.add(hashlib.sha1("\n".join(ops).encode()).hexdigest())
    if "n" in meta:
        stats.sizes[meta["n"]] += 1
    if "cls" in meta:
        stats.classes[f"{meta['cls']}/{meta.get('kind', '-')}"] += 1
    if len(stats.samples) < 6 and (stats.evaluations % 97 == 1):
        stats.samples.append(ops[:40])


CHUNK_TIMEOUT = 90
FAIL_BUDGET_S = 240
ONE_TIMEOUT = 20


def _run_chunk(args):
    idx, hists, harness = args
    text = "".join("\n".join(ops) + "\nreset\n" for _, ops in hists)
    try:
        r = core.run_pair(text, harness, tag=f"chunk{idx}", timeout=CHUNK_TIMEOUT, partial_on_timeout=True)
    except subprocess.TimeoutExpired:
        r = dict(impl="", model="", impl_rc=-9, model_rc=-9, impl_err="timeout", model_err="timeout")
    return idx, r


def run_histories(hists, harness, proj, stats, chunk=300, max_fail=4, workers=None):
    """hists: iterable of (meta, ops).  Returns list of failures (dicts with ops, mismatch).
    When the implementation dies inside a chunk, the history it died in is re-run alone (to get
    its transcript up to the crash) and the rest of the chunk is resumed as a new chunk."""
    workers = workers or core.NCPU
    failures = []
    lock = threading.Lock()
    chunks, batch = [], []
    for h in hists:
        batch.append(h)
        if len(batch) >= chunk:
            chunks.append(batch)
            batch = []
    if batch:
        chunks.append(batch)

    def record(ops, meta, m):
        with lock:
            nv = sum(1 for f in failures if f["mismatch"]["kind"] == "violation")
            nd = len(failures) - nv
            if (m["kind"] == "violation" and nv < max_fail) or (m["kind"] != "violation" and nd < 2):
                failures.append(dict(ops=ops, meta=meta, mismatch=m))

    t_start = time.time()

    def enough():
        with lock:
            nv = sum(1 for f in failures if f["mismatch"]["kind"] == "violation")
        # stop exploring once the verdict is settled: enough concrete violations, or the time budget
        # for a failing run is used up (a passing run never comes near it)
        return nv >= max_fail or (failures and time.time() - t_start > FAIL_BUDGET_S)

    def work(idx_c):
        idx, c = idx_c
        todo = c
        rounds = 0
        while todo and not enough():
            rounds += 1
            _, r = _run_chunk((f"{idx}_{rounds}", todo, harness))
            hi = core.split_histories(r["impl"])
            hm = core.split_histories(r["model"])
            crashed = r["impl_rc"] != 0
            # number of histories the implementation completed
            done = len(hi) if not crashed else max(0, len(hi) - (1 if (hi and len(hi) <= len(todo) and r["impl"] and not r["impl"].endswith("R reset\n")) else 0))
            done = min(done, len(todo))
            for k in range(done):
                meta, ops = todo[k]
                mm = hm[k] if k < len(hm) else []
                with lock:
                    _account(stats, meta, ops, mm)
                m = compare_history(hi[k], mm, proj)
                if m is not None:
                    record(ops, meta, m)
            if not crashed or done >= len(todo):
                if crashed and done >= len(todo):
                    pass
                break
            # the history the implementation died in
            meta, ops = todo[done]
            m, r1 = run_one(ops, harness, proj, tag=f"rerun{idx}")
            hm1 = core.split_histories(r1["model"])
            with lock:
                _account(stats, meta, ops, hm1[0] if hm1 else [])
            if m is not None:
                record(ops, meta, m)
            todo = todo[done + 1:]
            if rounds > 200:
                break

    with cf.ThreadPoolExecutor(max_workers=workers) as ex:
        list(ex.map(work, enumerate(chunks)))
    return failures
