"""wide.py — families of histories on *wide* graphs (DESIGN.md §9.7, round 5).

The exhaustive and random workloads of props.py live on graphs of at most ten vertices.  Realistic
optimisations have thresholds well above that: a "small graph" bitmask for n <= 64 (and the 32-bit shift
that goes with it), a linear scan replaced by a hash look-up once a neighbour list is longer than 8, a
small-buffer container.  These families put every workload on graphs of 12..70 vertices with hubs (lists
of 9..n entries), neighbours that differ by 8 / 16 / 32 / 64 (what a wrapped shift or a narrowed index
confuses), and the boundary indices 31 / 32 / 33 / 63 / 64.  Implicit dumps are switched off
(`mode quiet`) while the graph is built; explicit `dump`s compare every observer at chosen points.
"""
from . import gen
from .gen import SIMPLE, MULTI, WEIGHTED

SIZES = [12, 20, 33, 40, 64, 65, 70]
DELTAS = (32, 16, 8, 64)


def is_und(cls):
    return cls in ("und", "umulti", "uw")


def canon(cls, e):
    return (min(e), max(e)) if is_und(cls) else e


def special(n):
    return sorted({v for v in (0, 1, 7, 8, 9, 15, 16, 17, 31, 32, 33, 34, 47, 48, 63, 64, 65, n - 2, n - 1) if 0 <= v < n})


def wide_edges(rng, n, cls="dir", hubs=None):
    sp = special(n)
    hs = rng.sample(sp, min(len(sp), hubs if hubs is not None else rng.choice([1, 2, 3])))
    es = []
    for h in hs:
        k = rng.choice([9, 10, 12, 17, 33, n])
        nb = set(rng.sample(range(n), min(k, n)))
        for j in sorted(nb):
            for d in DELTAS:
                if j + d < n and rng.random() < 0.3:
                    nb.add(j + d)
        for j in sorted(nb):
            es.append((h, j) if rng.random() < 0.7 else (j, h))
    for _ in range(rng.randint(0, 12)):
        es.append((rng.choice(sp), rng.choice(sp)))
    for _ in range(rng.randint(0, 10)):
        es.append((rng.randrange(n), rng.randrange(n)))
    seen, out = set(), []
    for e in es:
        k = canon(cls, e)
        if k not in seen:
            seen.add(k)
            out.append(e)
    rng.shuffle(out)
    return out


def val_for(rng, cls, kind):
    if cls in SIMPLE:
        return gen.label_tok(rng, kind)
    if cls in MULTI:
        return rng.randint(1, 4)
    return rng.randint(-8, 16)


def add_op(cls, slot, i, j, val, force=0):
    if cls in MULTI:
        return f"addMultiedge {slot} {i} {j} {val} {force}"
    return f"addEdge {slot} {i} {j} {val} {force}"


def build(rng, cls, kind, n, es, slot=0, vals=None):
    """quiet construction of a given graph"""
    ops = [gen.new_line(slot, cls, kind, n)]
    for (i, j) in es:
        if is_und(cls) and rng.random() < 0.5:
            i, j = j, i
        v = vals[canon(cls, (i, j))] if vals else val_for(rng, cls, kind)
        ops.append(add_op(cls, slot, i, j, v))
    return ops


def pick_size(rng):
    return rng.choice(SIZES)


# ------------------------------------------------------------------ C01..C05
def statemachine(classes, tier_n, rng, kinds_of, **kw):
    for _ in range(tier_n):
        cls = rng.choice(classes)
        kind = rng.choice(kinds_of(cls))
        n = pick_size(rng)
        es = wide_edges(rng, n, cls)
        ops = ["mode quiet"] + build(rng, cls, kind, n, es) + ["dump 0"]
        present = set(es)
        for step in range(rng.randint(6, 24)):
            if cls in SIMPLE:
                op = gen.op_simple(rng, cls, kind, n, present, **kw)
            elif cls in MULTI:
                op = gen.op_multi(rng, cls, n, present)
            else:
                op = gen.op_weighted(rng, cls, n, present)
            ops.append(op)
            n = gen.track_size(op, n)
            if step % 6 == 5:
                ops.append("dump 0")
        ops.append("dump 0")
        yield ({"cls": cls, "kind": kind, "n": n, "len": len(ops), "family": "wide"}, ops)


# ------------------------------------------------------------------ C06
def equality(tier_n, rng, classes, kinds_of):
    for _ in range(tier_n):
        cls = rng.choice(classes)
        kind = rng.choice(kinds_of(cls))
        n = pick_size(rng)
        es = wide_edges(rng, n, cls)
        vals = {canon(cls, e): val_for(rng, cls, kind) for e in es}
        order2 = list(es)
        rng.shuffle(order2)
        ops = ["mode quiet"] + build(rng, cls, kind, n, es, 0, vals) + build(rng, cls, kind, n, order2, 1, vals)
        ops += ["eq 0 1", "eq 1 0", "copy 1 2"]
        present = {canon(cls, e) for e in es}
        # one edge moved to a neighbour that differs by 32 / 16 / 8 / 64 (same size, same edge count)
        moved = False
        cand = list(es)
        rng.shuffle(cand)
        for (a, b) in cand:
            for d in rng.sample([32, -32, 16, -16, 8, -8, 64, -64, 1], 9):
                c = b + d
                if 0 <= c < n and canon(cls, (a, c)) not in present:
                    if cls in MULTI:
                        ops.append(f"setEdgeMultiplicity 2 {a} {b} 0")
                    else:
                        ops.append(f"removeEdge 2 {a} {b}")
                    ops.append(add_op(cls, 2, a, c, vals[canon(cls, (a, b))]))
                    moved = True
                    break
            if moved:
                break
        ops += ["eq 0 2", "eq 2 0", "eq 1 2", "eq 2 2"]
        yield ({"cls": cls, "kind": kind, "n": n, "len": len(ops), "family": "wide"}, ops)


# ------------------------------------------------------------------ C08 / C09 / C10 helpers
def shape(rng, cls, kind):
    n = pick_size(rng)
    es = wide_edges(rng, n, cls)
    return n, es


def subsets(rng, n):
    out = [list(range(n)), [v for v in range(n) if v >= 32], [v for v in range(n) if v < 32]]
    for _ in range(3):
        S = [v for v in range(n) if rng.random() < rng.choice([0.2, 0.5, 0.9])]
        rng.shuffle(S)
        out.append(S)
    # a few members whose partners at distance 32 are absent
    S = [v for v in special(n) if rng.random() < 0.6]
    out.append(S)
    return out


# ------------------------------------------------------------------ C16
def forced(tier_n, rng):
    """forced duplicates next to distinct neighbours that differ by 32 / 16 / 8 / 64"""
    for _ in range(tier_n):
        cls = rng.choice(SIMPLE + MULTI + WEIGHTED)
        kind = rng.choice(["none", "int"]) if cls in SIMPLE else "-"
        n = pick_size(rng)
        es = wide_edges(rng, n, cls, hubs=rng.choice([1, 2]))
        vals = {canon(cls, e): (1 if (cls in SIMPLE and kind == "none") or (cls in MULTI and rng.random() < 0.4)
                                else val_for(rng, cls, kind)) for e in es}
        ops = ["mode quiet", gen.new_line(0, cls, kind, n)]
        calls = []
        for e in es:
            calls.append((e, 0 if rng.random() < 0.5 else 1))
            if rng.random() < 0.35:
                for _ in range(rng.randint(1, 2)):
                    calls.append((e, 1))
        rng.shuffle(calls)
        first = set()
        for (e, f) in calls:
            k = canon(cls, e)
            i, j = e
            if is_und(cls) and rng.random() < 0.5:
                i, j = j, i
            # a repeated pair is always forced in the weighted / multigraph classes (see wl_C16)
            force = 1 if (k in first and cls not in SIMPLE) else f
            first.add(k)
            if cls in MULTI and vals[k] == 1 and rng.random() < 0.5:
                ops.append(f"addEdge 0 {i} {j} {force}")   # single-edge entry point of the multigraphs
            else:
                ops.append(add_op(cls, 0, i, j, vals[k], force=force))
        ops += ["dump 0", "removeDuplicateEdges 0", "dump 0"]
        ops += build(rng, cls, kind, n, es, 1, vals)
        ops += ["eq 0 1", "eq 1 0"]
        yield ({"cls": cls, "kind": kind, "n": n, "len": len(ops), "family": "wide"}, ops)
