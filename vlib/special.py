"""special.py — properties with their own machinery: C17 (build configurations), C18, C20."""
import concurrent.futures as cf
import os
import random
import time

from . import core, engine, props


# ====================================================================== C17
# (name, compiler, flags, defines, wrapper)
CONFIGS_QUICK = [
    ("g++-O0-asan-ubsan", "g++", core.SAN_FLAGS, [], None),
    ("g++-O1-glibcxx-debug", "g++", ["-std=c++17", "-O1", "-g1"], ["-D_GLIBCXX_DEBUG", "-D_GLIBCXX_DEBUG_PEDANTIC"], None),
]
CONFIGS_THOROUGH = CONFIGS_QUICK + [
    ("g++-O2", "g++", ["-std=c++14", "-O2"], [], None),
    ("clang++-O2-ubsan", "clang++-14", ["-std=c++17", "-O2", "-fsanitize=undefined", "-fno-sanitize-recover=all"], [], None),
    ("clang++-O0-asan", "clang++-14", ["-std=c++17", "-O0", "-fsanitize=address", "-fno-omit-frame-pointer"], [], None),
    ("g++-O0-valgrind", "g++", ["-std=c++17", "-O0", "-g1"], [], "valgrind"),
]

C17_SOURCES = ["C01", "C02", "C03", "C04", "C05", "C06", "C08", "C09", "C10", "C11", "C12", "C13", "C14", "C16"]


def c17_histories(tier, seed):
    """valid histories only: a seeded sample of the quick workloads of C01–C16 (C07/C15 are the
    invalid-input streams and are excluded: C17 is about *valid* use)"""
    per = 250 if tier == "quick" else 1500
    out = []
    for pid in C17_SOURCES:
        wl = props.WORKLOADS.get(pid)
        if wl is None:
            continue
        rng = random.Random(seed * 1000 + int(pid[1:]))
        hs = list(wl("quick", rng))
        rng.shuffle(hs)
        for meta, ops in hs[:per]:
            m = dict(meta)
            m["from"] = pid
            out.append((m, ops))
    return out


def run_c17(pid, tier, seed, args, ctx):
    violation = ctx["violation"]
    t0 = ctx["t0"]
    configs = CONFIGS_QUICK if tier == "quick" else CONFIGS_THOROUGH
    proj = engine.make_projection(engine.ALL_PREFIXES, sort_lists=False)
    hists = c17_histories(tier, seed)
    results = {}
    total_eval = 0
    stats_all = engine.Stats()

    def build(cfg):
        name, comp, flags, defs, wrap = cfg
        try:
            return cfg, core.build_harness(name="bgh17-" + name, flags=flags, compiler=comp, defines=defs), None
        except core.BuildError as e:
            return cfg, None, e

    with cf.ThreadPoolExecutor(max_workers=len(configs)) as ex:
        built = list(ex.map(build, configs))
    nviol = 0
    for cfg, binp, err in built:
        name = cfg[0]
        if err is not None:
            p = core.write_replay(pid, f"build-{name}.txt", f"# configuration {name}: harness does not build\n{err.output[-4000:]}\n")
            violation(p, nofail=True)
            results[name] = "build failed"
            continue
        stats = engine.Stats()
        hs = hists
        runner = binp
        if cfg[4] == "valgrind":
            # memcheck is ~30x slower: a smaller slice, uninitialised reads are its target
            hs = hists[:: max(1, len(hists) // (60 if tier == "quick" else 400))]
            runner = _valgrind_wrapper(binp)
        fails = engine.run_histories(hs, runner, proj, stats, chunk=120)
        total_eval += stats.evaluations
        results[name] = {"histories": stats.evaluations, "steps": stats.steps, "mismatches": len(fails)}
        if name == configs[0][0]:
            stats_all = stats
        for fl in fails[:2]:
            nviol += 1
            try:
                shrunk = engine.shrink(fl["ops"], runner, proj, fl["mismatch"]["kind"], budget=60)
            except Exception:
                shrunk = fl["ops"]
            m = fl["mismatch"]
            text = [f"# property C17: under build configuration `{name}` ({cfg[1]} {' '.join(cfg[2] + cfg[3])}) this VALID history",
                    "# does not produce the transcript of the model (and of the other configurations): a sanitizer /",
                    "# debug-mode abort or a configuration-dependent result, i.e. undefined behaviour.",
                    f"# first differing step {m['step']}: {m['op']}"] + shrunk
            text += ["# --- this configuration said ---"] + ["#   " + l for l in m["impl"][:30]]
            text += ["# --- model said ---"] + ["#   " + l for l in m["model"][:30]]
            if m.get("impl_err"):
                text += ["# --- stderr ---"] + ["#   " + l for l in m["impl_err"].split("\n")[-25:]]
            p = core.write_replay(pid, f"{name}-{nviol}.ops", "\n".join(text) + "\n")
            violation(p)
    cov = stats_all.coverage()
    cov.update({
        "explanation": "C17 is decided dynamically: the same valid histories (a seeded sample of the C01–C16 workloads) are run "
                       "through the real classes under several build configurations (compiler, optimisation level, libstdc++ debug mode, "
                       "ASan/UBSan, valgrind in the thorough tier); every configuration must reproduce the Lean model's transcript byte for byte. "
                       "A sanitizer or debug-mode abort, or any configuration-dependent output, is a violation with the history as replay. "
                       "The Lean theorems listed cover only the UB classes the model represents (unchecked indices, end() dereference, "
                       "uninitialised loader locals); object-lifetime UB is outside the model (DESIGN §6 C17).",
        "configurations": results,
        "evaluations": total_eval,
        "obligations": ctx["obligations"], "discharged": ctx["discharged"], "theorems": ctx["thms"],
        "rule": "history = valid op sequence sampled from vlib/props.py workloads; distinct = sha1 of ops; non-trivial = changes state",
    })
    if not cov.get("samples"):
        cov["samples"] = [["<none>"]]
    core.write_evidence(pid, tier, seed, "other", cov, time.time() - t0, ctx["violations_fn"](), assumptions=ctx["trusted"])
    core.log(f"[C17] tier={tier} configs={list(results)} evaluations={total_eval} violations={ctx['violations_fn']()} wall={time.time()-t0:.1f}s")
    return 1 if ctx["violations_fn"]() else 0


def _valgrind_wrapper(binp):
    """a tiny shell wrapper so that run_pair can exec `valgrind <bin> <echo>`"""
    w = binp + ".vg.sh"
    if not os.path.exists(w):
        with open(w, "w") as f:
            f.write("#!/bin/sh\nexec valgrind -q --error-exitcode=79 --track-origins=no --leak-check=no "
                    f"'{binp}' \"$@\"\n")
        os.chmod(w, 0o755)
    return w


HANDLERS = {"C17": run_c17}
