"""special.py — properties with their own machinery: C17 (build configurations), C18, C20."""
import concurrent.futures as cf
import os
import random
import time

from . import core, engine, props


# ====================================================================== C17
# (name, compiler, flags, defines, wrapper)
CONFIGS_QUICK = [
    ("g++-O0-asan-ubsan", "g++", core.SAN_FLAGS, [], None),
    ("g++-O1-glibcxx-debug", "g++", ["-std=c++17", "-O1", "-g1"], ["-D_GLIBCXX_DEBUG", "-D_GLIBCXX_DEBUG_PEDANTIC"], None),
]
CONFIGS_THOROUGH = CONFIGS_QUICK + [
    ("g++-O2", "g++", ["-std=c++14", "-O2"], [], None),
    ("clang++-O2-ubsan", "clang++-14", ["-std=c++17", "-O2", "-fsanitize=undefined", "-fno-sanitize-recover=all"], [], None),
    ("clang++-O0-asan", "clang++-14", ["-std=c++17", "-O0", "-fsanitize=address", "-fno-omit-frame-pointer"], [], None),
    ("g++-O0-valgrind", "g++", ["-std=c++17", "-O0", "-g1"], [], "valgrind"),
]

C17_SOURCES = ["C01", "C02", "C03", "C04", "C05", "C06", "C08", "C09", "C10", "C11", "C12", "C13", "C14", "C16"]


def c17_histories(tier, seed):
    """valid histories only: a seeded sample of the quick workloads of C01–C16 (C07/C15 are the
    invalid-input streams and are excluded: C17 is about *valid* use)"""
    per = 250 if tier == "quick" else 1500
    out = []
    for pid in C17_SOURCES:
        wl = props.WORKLOADS.get(pid)
        if wl is None:
            continue
        rng = random.Random(seed * 1000 + int(pid[1:]))
        hs = list(wl("quick", rng))
        # the small deterministic families (boundary values) always take part
        fam = [h for h in hs if h[0].get("family")]
        rest = [h for h in hs if not h[0].get("family")]
        rng.shuffle(rest)
        for meta, ops in fam[:200] + rest[:per]:
            m = dict(meta)
            m["from"] = pid
            out.append((m, ops))
    return out


def run_c17(pid, tier, seed, args, ctx):
    violation = ctx["violation"]
    t0 = ctx["t0"]
    configs = CONFIGS_QUICK if tier == "quick" else CONFIGS_THOROUGH
    proj = engine.make_projection(engine.ALL_PREFIXES, sort_lists=False)
    hists = c17_histories(tier, seed)
    results = {}
    total_eval = 0
    stats_all = engine.Stats()

    def build(cfg):
        name, comp, flags, defs, wrap = cfg
        try:
            return cfg, core.build_harness(name="bgh17-" + name, flags=flags, compiler=comp, defines=defs), None
        except core.BuildError as e:
            return cfg, None, e

    with cf.ThreadPoolExecutor(max_workers=len(configs)) as ex:
        built = list(ex.map(build, configs))
    nviol = 0
    for cfg, binp, err in built:
        name = cfg[0]
        if err is not None:
            p = core.write_replay(pid, f"build-{name}.txt", f"# configuration {name}: harness does not build\n{err.output[-4000:]}\n")
            violation(p, nofail=True)
            results[name] = "build failed"
            continue
        stats = engine.Stats()
        hs = hists
        runner = binp
        if cfg[4] == "valgrind":
            # memcheck is ~30x slower: a smaller slice, uninitialised reads are its target
            hs = hists[:: max(1, len(hists) // (60 if tier == "quick" else 400))]
            runner = _valgrind_wrapper(binp)
        fails = engine.run_histories(hs, runner, proj, stats, chunk=120)
        total_eval += stats.evaluations
        results[name] = {"histories": stats.evaluations, "steps": stats.steps, "mismatches": len(fails)}
        if name == configs[0][0]:
            stats_all = stats
        for fl in fails[:2]:
            nviol += 1
            try:
                shrunk = engine.shrink(fl["ops"], runner, proj, fl["mismatch"]["kind"], budget=60)
            except Exception:
                shrunk = fl["ops"]
            m = fl["mismatch"]
            text = [f"# property C17: under build configuration `{name}` ({cfg[1]} {' '.join(cfg[2] + cfg[3])}) this VALID history",
                    "# does not produce the transcript of the model (and of the other configurations): a sanitizer /",
                    "# debug-mode abort or a configuration-dependent result, i.e. undefined behaviour.",
                    f"# first differing step {m['step']}: {m['op']}"] + shrunk
            text += ["# --- this configuration said ---"] + ["#   " + l for l in m["impl"][:30]]
            text += ["# --- model said ---"] + ["#   " + l for l in m["model"][:30]]
            if m.get("impl_err"):
                text += ["# --- stderr ---"] + ["#   " + l for l in m["impl_err"].split("\n")[-25:]]
            p = core.write_replay(pid, f"{name}-{nviol}.ops", "\n".join(text) + "\n")
            violation(p)
    cov = stats_all.coverage()
    cov.update({
        "explanation": "C17 is decided dynamically: the same valid histories (a seeded sample of the C01–C16 workloads) are run "
                       "through the real classes under several build configurations (compiler, optimisation level, libstdc++ debug mode, "
                       "ASan/UBSan, valgrind in the thorough tier); every configuration must reproduce the Lean model's transcript byte for byte. "
                       "A sanitizer or debug-mode abort, or any configuration-dependent output, is a violation with the history as replay. "
                       "The Lean theorems listed cover only the UB classes the model represents (unchecked indices, end() dereference, "
                       "uninitialised loader locals); object-lifetime UB is outside the model (DESIGN §6 C17).",
        "configurations": results,
        "evaluations": total_eval,
        "obligations": ctx["obligations"], "discharged": ctx["discharged"], "theorems": ctx["thms"],
        "rule": "history = valid op sequence sampled from vlib/props.py workloads; distinct = sha1 of ops; non-trivial = changes state",
    })
    if not cov.get("samples"):
        cov["samples"] = [["<none>"]]
    core.write_evidence(pid, tier, seed, "other", cov, time.time() - t0, ctx["violations_fn"](), assumptions=ctx["trusted"])
    core.log(f"[C17] tier={tier} configs={list(results)} evaluations={total_eval} violations={ctx['violations_fn']()} wall={time.time()-t0:.1f}s")
    return 1 if ctx["violations_fn"]() else 0


def _valgrind_wrapper(binp):
    """a tiny shell wrapper so that run_pair can exec `valgrind <bin> <echo>`"""
    w = binp + ".vg.sh"
    if not os.path.exists(w):
        with open(w, "w") as f:
            f.write("#!/bin/sh\nexec valgrind -q --error-exitcode=79 --track-origins=no --leak-check=no "
                    f"'{binp}' \"$@\"\n")
        os.chmod(w, 0o755)
    return w


HANDLERS = {"C17": run_c17}


# ====================================================================== C20
import json as _json
import re as _re
import subprocess as _sp
import sys as _sys

sys_path_added = False


def _matrix():
    global sys_path_added
    if not sys_path_added:
        _sys.path.insert(0, core.HARNESS)
        sys_path_added = True
    import matrix_gen
    return matrix_gen


def run_translator():
    env = dict(os.environ)
    env["VERIF_REPO"] = core.REPO
    p = _sp.run([_sys.executable, os.path.join(core.VERIF, "translator", "ast_facts.py")], stdout=_sp.PIPE, stderr=_sp.PIPE, env=env, timeout=600)
    try:
        return _json.loads(p.stdout.decode()), p.stderr.decode()
    except ValueError:
        return None, p.stdout.decode()[-2000:] + p.stderr.decode()[-2000:]


def build_gen(modules):
    """lake build of the generated-table library; returns (ok, output)"""
    rc, out = core.sh(["lake", "build"] + modules, cwd=core.LEAN, timeout=1800)
    return rc == 0, out


def audit_gen(names, module):
    src = f"import {module}\n" + "\n".join(f"#print axioms BGVGen.{n}" for n in names) + "\n"
    path = os.path.join(core.LEAN, f".audit-gen-{os.getpid()}.lean")
    open(path, "w").write(src)
    rc, out = core.sh(["lake", "env", "lean", path], cwd=core.LEAN, timeout=600)
    os.remove(path)
    res = {}
    for m in _re.finditer(r"'BGVGen\.([^']+)' depends on axioms: \[([^\]]*)\]", out.replace("\n ", " ")):
        res[m.group(1)] = sorted(x.strip() for x in m.group(2).split(",") if x.strip())
    for m in _re.finditer(r"'BGVGen\.([^']+)' does not depend on any axioms", out):
        res[m.group(1)] = []
    return res, out


def gen_theorems(fname):
    s = open(os.path.join(core.LEAN, "BGVGen", fname)).read()
    return _re.findall(r"^theorem\s+(C\d\d_\w+)", s, _re.M)


def compile_only(compiler, std, src_path, extra=()):
    cmd = [compiler, f"-std={std}", "-fsyntax-only", "-I", core.repo_include(), src_path] + list(extra)
    p = _sp.run(cmd, stdout=_sp.PIPE, stderr=_sp.STDOUT, timeout=600)
    return p.returncode, p.stdout.decode("utf-8", "replace")


def run_c20(pid, tier, seed, args, ctx):
    violation = ctx["violation"]
    t0 = ctx["t0"]
    mg = _matrix()
    wd = os.path.join(core.WORK, f"matrix-{os.getpid()}")
    os.makedirs(wd, exist_ok=True)
    report = {}
    # ---- 1. regenerate the tables from the source and re-check the theorems about them
    with core.lean_lock():
        facts, terr = run_translator()
        thms = gen_theorems("C20.lean")
        ok, out = build_gen(["BGVGen.C20"])
        ax, aout = audit_gen(thms, "BGVGen.C20") if ok else ({}, "")
    discharged = 0
    if ok:
        for t in thms:
            if t in ax and set(ax[t]) <= core.ALLOWED_AXIOMS:
                discharged += 1
        if discharged != len(thms):
            p = core.write_replay(pid, "axioms.txt", "# C20 theorems over the generated header table: axiom audit failed\n" + aout[-3000:])
            violation(p, nofail=True)
    else:
        failing = sorted(set(_re.findall(r"theorem (C20_\w+)|BGVGen/C20\.lean:(\d+)", out) and _re.findall(r"C20\.lean:(\d+):", out)))
        # search for a concrete failing client program
        found = None
        if facts and facts.get("unguarded"):
            for h in facts["unguarded"]:
                src = os.path.join(wd, "twice.cpp")
                open(src, "w").write(f'#include "{h}"\n#include "{h}"\nint main() {{ return 0; }}\n')
                rc, o = compile_only("g++", "c++14", src)
                if rc != 0:
                    found = core.write_replay(pid, "include-twice.cpp",
                                              f"// property C20: header {h} has no include guard; this well-formed client does not compile:\n"
                                              f'#include "{h}"\n#include "{h}"\nint main() {{ return 0; }}\n/* g++ -std=c++14 says:\n{o[-1500:]}\n*/\n')
                    break
        if found:
            violation(found)
        else:
            p = core.write_replay(pid, "header-table-theorems.txt",
                                  "# property C20: the theorems over the header table regenerated from /repo no longer check\n"
                                  "# (BGVGen/C20.lean: C20_headers_guarded / C20_no_strong_definition / C20_definition_keys_distinct / C20_clang_parsed)\n"
                                  + out[-3000:] + "\n# translator summary: " + _json.dumps(facts)[:1500] + "\n" + (terr or ""))
            violation(p, nofail=True)
    report["header_table"] = facts
    # ---- 2. the compile matrix
    groups = mg.all_groups()
    combos = [("g++", "c++14"), ("clang++-14", "c++17")] if tier == "quick" else \
             [(c, s) for c in ("g++", "clang++-14") for s in ("c++14", "c++17", "c++20")]
    jobs = []
    for gname, cells in groups.items():
        src = os.path.join(wd, gname + ".cpp")
        open(src, "w").write(mg.tu_source(cells))
        for (comp, std) in combos:
            jobs.append((gname, comp, std, src))
    cells_total = sum(len(c) for c in groups.values()) * len(combos)
    failing_cells = []
    with cf.ThreadPoolExecutor(max_workers=core.NCPU) as ex:
        results = list(ex.map(lambda j: (j, compile_only(j[1], j[2], j[3])), jobs))
    bad_groups = [(j, o) for (j, (rc, o)) in results if rc != 0]
    # isolate the failing cells of a failing group
    iso_jobs = []
    for (gname, comp, std, src), _ in bad_groups:
        for n, (cid, entry, code) in enumerate(groups[gname]):
            csrc = os.path.join(wd, f"{gname}-{n}.cpp")
            if not os.path.exists(csrc):
                open(csrc, "w").write(mg.PRELUDE + f"// cell {cid}: {entry}\nvoid cell() {{ {code} }}\n")
            iso_jobs.append((cid, entry, code, comp, std, csrc))
    if iso_jobs:
        with cf.ThreadPoolExecutor(max_workers=core.NCPU) as ex:
            iso = list(ex.map(lambda j: (j, compile_only(j[3], j[4], j[5])), iso_jobs))
        for (cid, entry, code, comp, std, csrc), (rc, o) in iso:
            if rc != 0:
                failing_cells.append(dict(cell=cid, entry=entry, compiler=comp, std=std, code=code, err=o[-1200:]))
    seen_cells = set()
    for fc in failing_cells:
        if fc["cell"] in seen_cells:
            continue
        seen_cells.add(fc["cell"])
        if len(seen_cells) > 6:
            break
        text = (f"// property C20: documented entry point {fc['entry']} does not compile when used as documented\n"
                f"// cell {fc['cell']}; {fc['compiler']} -std={fc['std']} -fsyntax-only; also failing with: "
                + ", ".join(sorted({x['compiler'] + ' ' + x['std'] for x in failing_cells if x['cell'] == fc['cell']})) + "\n"
                + mg.PRELUDE + f"void cell() {{ {fc['code']} }}\nint main() {{ return 0; }}\n/*\n{fc['err']}\n*/\n")
        p = core.write_replay(pid, f"cell-{len(seen_cells)}.cpp", text)
        violation(p)
    if bad_groups and not failing_cells:
        (gname, comp, std, src), o = bad_groups[0]
        p = core.write_replay(pid, f"group-{gname}.txt", f"// group {gname} fails with {comp} {std} although every cell compiles alone\n{o[-3000:]}")
        violation(p)
    report["matrix"] = dict(cells=sum(len(c) for c in groups.values()), combos=[" ".join(c) for c in combos],
                            cell_compiles=cells_total, failing_cells=sorted(seen_cells))
    # ---- 2b. the documentation's own code: every \\code{.cpp} block of the headers (re-extracted from /repo on
    #          every run) compiled verbatim, and every program under examples/.  A block that names a class template
    #          without arguments relies on class template argument deduction and is compiled from C++17 on.
    doc_jobs = []
    import glob as _glob
    for hp in sorted(_glob.glob(os.path.join(core.repo_include(), "BaseGraph", "**", "*.h*"), recursive=True)):
        text = open(hp, errors="replace").read()
        for bi, m in enumerate(_re.finditer(r"\\code\{\.cpp\}(.*?)\\endcode", text, flags=_re.S)):
            body = "\n".join(_re.sub(r"^\s*\* ?", "", l) for l in m.group(1).split("\n")).strip()
            ctad = bool(_re.search(r"\bLabeled(?:Un)?[Dd]irectedGraph\s+\w+\s*[({]", body))
            name = os.path.relpath(hp, core.repo_include()).replace("/", "_") + f"-doc{bi}"
            src = os.path.join(wd, "doc-" + name + ".cpp")
            prelude = mg.PRELUDE.replace("using namespace BaseGraph;", "")
            open(src, "w").write(prelude + "int main() {\n" + body + "\nreturn 0;\n}\n")
            for (comp, std) in combos:
                if ctad and std == "c++14":
                    continue
                doc_jobs.append((name, comp, std, src, body))
    exdir = os.path.join(core.repo(), "examples") if hasattr(core, "repo") else os.path.join(os.path.dirname(core.repo_include()), "examples")
    for ep_ in sorted(_glob.glob(os.path.join(exdir, "*.cpp"))):
        for (comp, std) in combos:
            doc_jobs.append(("example-" + os.path.basename(ep_), comp, std, ep_, open(ep_, errors="replace").read()))
    with cf.ThreadPoolExecutor(max_workers=core.NCPU) as ex:
        doc_res = list(ex.map(lambda j: (j, compile_only(j[1], j[2], j[3])), doc_jobs))
    doc_fail = [(j, o) for (j, (rc, o)) in doc_res if rc != 0]
    shown = set()
    for (name, comp, std, src, body), o in doc_fail:
        if name in shown or len(shown) >= 4:
            continue
        shown.add(name)
        p = core.write_replay(pid, f"doc-{len(shown)}.cpp",
                              f"// property C20: the documentation's own code ({name}) does not compile: {comp} -std={std} -fsyntax-only\n"
                              + open(src, errors="replace").read() + f"\n/*\n{o[-1500:]}\n*/\n")
        violation(p)
    report["documentation_code"] = dict(blocks_and_examples=len({j[0] for j in doc_jobs}), compiles=len(doc_jobs), failures=len(doc_fail))
    # ---- 3. every header alone, twice, and from two translation units of one program
    hdrs = sorted(h["name"] if isinstance(h, dict) else h for h in (facts or {}).get("header_names", [])) if False else None
    import glob
    hdrs = sorted(os.path.relpath(p, core.repo_include()) for p in glob.glob(os.path.join(core.repo_include(), "BaseGraph", "**", "*.h*"), recursive=True))
    hjobs = []
    for h in hdrs:
        for mode in ("alone", "twice"):
            src = os.path.join(wd, "hdr-" + h.replace("/", "_") + "-" + mode + ".cpp")
            open(src, "w").write((f'#include "{h}"\n' * (2 if mode == "twice" else 1)) + "int main() { return 0; }\n")
            for (comp, std) in (combos if tier != "quick" else combos[:2]):
                hjobs.append((h, mode, comp, std, src))
    with cf.ThreadPoolExecutor(max_workers=core.NCPU) as ex:
        hres = list(ex.map(lambda j: (j, compile_only(j[2], j[3], j[4])), hjobs))
    hfail = [(j, o) for (j, (rc, o)) in hres if rc != 0]
    reported_h = set()
    for (h, mode, comp, std, src), o in hfail:
        if (h, mode) in reported_h:
            continue
        reported_h.add((h, mode))
        p = core.write_replay(pid, "header-" + h.replace("/", "_") + "-" + mode + ".cpp",
                              f"// property C20: including {h} {mode} does not compile ({comp} -std={std})\n" + open(src).read() + f"/*\n{o[-1500:]}\n*/\n")
        violation(p)
    # two translation units including every header (different orders, some twice), linked
    rng = random.Random(seed)
    link_fail = None
    for comp in ("g++", "clang++-14"):
        objs = []
        for k in range(2):
            order = hdrs + rng.sample(hdrs, len(hdrs) // 2)
            rng.shuffle(order)
            src = os.path.join(wd, f"tu{k}-{comp}.cpp")
            body = "".join(f'#include "{h}"\n' for h in order)
            body += (f"int use{k}() {{ BaseGraph::DirectedGraph g(2); g.addEdge(0, 1); BaseGraph::UndirectedWeightedGraph w(2); w.addEdge(0, 1, 1.5);"
                     f" return (int)g.getEdgeNumber() + (int)BaseGraph::algorithms::findVertexPredecessors(g, 0).first.size() + (BaseGraph::io::SYSTEM_IS_BIG_ENDIAN ? 1 : 0); }}\n")
            if k == 1:
                body += "int use0();\nint main() { return use0() + use1() > 0 ? 0 : 1; }\n"
            open(src, "w").write(body)
            obj = src[:-4] + ".o"
            rc, o = core.sh([comp, "-std=c++17", "-c", "-I", core.repo_include(), src, "-o", obj], timeout=600)
            if rc != 0:
                link_fail = (comp, "compile", open(src).read(), o)
                break
            objs.append(obj)
        if link_fail:
            break
        rc, o = core.sh([comp] + objs + ["-o", os.path.join(wd, f"prog-{comp}")], timeout=600)
        if rc != 0:
            link_fail = (comp, "link", "two translation units including every header", o)
            break
    if link_fail:
        p = core.write_replay(pid, "two-tu-program.txt", f"// property C20: a program of two translation units including the headers fails to {link_fail[1]} with {link_fail[0]}\n{link_fail[2][:3000]}\n/*\n{link_fail[3][-2500:]}\n*/\n")
        violation(p)
    report["headers"] = dict(headers=len(hdrs), compiles=len(hjobs), failures=len(hfail), two_tu_link="ok" if not link_fail else "FAILED")
    # ---- 4. entry-point inventory vs. cells
    uncovered = []
    try:
        ep = open(os.path.join(core.LEAN, "BGVGen", "EntryPoints.lean")).read()
        allcode = "\n".join(code for cells in groups.values() for (_, _, code) in cells)
        internal = {"constEdgeIterator", "Edges", "getEndVertex", "hasReachedEnd", "operator*", "operator++", "operator()", "operator==", "operator!=", "VertexIterator",
                    # undocumented helpers of the free-function inventory (hashing, byte-level I/O primitives)
                    "hashCombine", "hashPair", "_isSystemBigEndian", "readBinaryValue", "writeBinaryValue", "swapBytes", "verifyStreamOpened"}
        for (c, m_, _n) in _re.findall(r'\("([^"]+)", "([^"]+)", (\d+)\)', ep):
            if m_ in internal or c in internal or m_.startswith("operator"):
                continue
            m_ = m_.split("<")[0]
            if not _re.search(r"\b" + _re.escape(m_) + r"\b", allcode):
                uncovered.append(f"{c}::{m_}")
    except OSError:
        pass
    report["entry_points_without_cell"] = sorted(set(uncovered))
    import shutil
    shutil.rmtree(wd, ignore_errors=True)
    cov = {
        "explanation": "C20 sentence 3 (any include order / multiplicity / number of TUs): Lean theorem C20_includes over the header table "
                       "regenerated from /repo by translator/ast_facts.py, instantiated by `decide` (C20_repo_includes); plus direct compiler "
                       "checks (each header alone and twice, two-TU link with shuffled orders). Sentences 1-2 (each documented entry point "
                       "compiles with each label kind): decided by the compilers, one cell per entry point x label kind x standard x compiler; "
                       "no Lean model can express C++ template type-checking (DESIGN §6 C20).",
        "obligations": len(thms), "discharged": discharged, "theorems": thms,
        "checker_cmd": "python3 translator/ast_facts.py && cd lean && lake build BGVGen.C20",
        "trusted_base": ctx["trusted"] + ["clang 14 JSON AST and translator/ast_facts.py", "g++ 12 / clang++ 14 as oracles of well-formedness"],
        "programs": report["matrix"]["cell_compiles"] + len(hjobs) + 4,
        "evaluations": report["matrix"]["cell_compiles"] + len(hjobs) + 4,
        "distinct_nontrivial": report["matrix"]["cells"] + len(hdrs) * 2,
        "rule": "one client function per documented entry point and label kind (harness/matrix_gen.py), compiled -fsyntax-only per compiler x standard; "
                "distinct = distinct cell source",
        "samples": [groups["simple-int"][6][2], groups["fixed"][1][2]],
        "report": report,
    }
    core.write_evidence(pid, tier, seed, "other", cov, time.time() - t0, ctx["violations_fn"](), assumptions=ctx["trusted"])
    core.log(f"[C20] tier={tier} cells={report['matrix']['cells']}x{len(combos)} failing={len(seen_cells)} headers={report['headers']} "
             f"uncovered={len(uncovered)} theorems={discharged}/{len(thms)} violations={ctx['violations_fn']()} wall={time.time()-t0:.1f}s")
    return 1 if ctx["violations_fn"]() else 0


HANDLERS["C20"] = run_c20


# ====================================================================== C18
TSAN_FLAGS = ["-std=c++17", "-O1", "-g1", "-fsanitize=thread"]


def run_c18(pid, tier, seed, args, ctx):
    violation = ctx["violation"]
    t0 = ctx["t0"]
    with core.lean_lock():
        facts, terr = run_translator()
        thms = gen_theorems("C18.lean")
        ok, out = build_gen(["BGVGen.C18"])
        ax, aout = audit_gen(thms, "BGVGen.C18") if ok else ({}, "")
    discharged = 0
    table_broken = False
    if ok:
        for t in thms:
            if t in ax and set(ax[t]) <= core.ALLOWED_AXIOMS:
                discharged += 1
        if discharged != len(thms):
            p = core.write_replay(pid, "axioms.txt", "# C18 theorems: axiom audit failed\n" + aout[-3000:])
            violation(p, nofail=True)
    else:
        table_broken = True
    # reader harness under ThreadSanitizer: the search for a concrete racing pair, and a sample of real schedules
    threads = 4 if tier == "quick" else 16
    batches = 6 if tier == "quick" else 60
    runs = []
    tsan_fail = None
    try:
        binp = core.build_harness(name="tsan-readers", src="readers_tsan.cpp", flags=TSAN_FLAGS)
    except core.BuildError as e:
        binp = None
        p = core.write_replay(pid, "tsan-build.txt", "# the reader harness does not build against /repo/include\n" + e.output[-4000:])
        violation(p, nofail=True)
    total_transcripts = 0
    if binp:
        env = dict(os.environ)
        env["BGH_TMP"] = os.path.join(core.WORK, "tmp")
        os.makedirs(env["BGH_TMP"], exist_ok=True)
        env["TSAN_OPTIONS"] = "halt_on_error=1:exitcode=66:second_deadlock_stack=1"

        def one(k):
            p = _sp.run([binp, str(seed * 1000 + k), str(threads), "2"], stdout=_sp.PIPE, stderr=_sp.PIPE, env=env, timeout=900)
            return k, p.returncode, p.stdout.decode("utf-8", "replace"), p.stderr.decode("utf-8", "replace")
        with cf.ThreadPoolExecutor(max_workers=max(1, core.NCPU // threads)) as ex:
            for k, rc, so, se in ex.map(one, range(batches)):
                runs.append(so.strip())
                m = _re.search(r"transcripts=(\d+)", so)
                if m:
                    total_transcripts += int(m.group(1))
                if rc != 0 and tsan_fail is None:
                    tsan_fail = (k, rc, so, se)
    if tsan_fail:
        k, rc, so, se = tsan_fail
        kind = "data race reported by ThreadSanitizer" if rc == 66 else ("a reader thread obtained a result different from the single-threaded run" if rc == 3 else f"reader harness exited with {rc}")
        p = core.write_replay(pid, "tsan-report.txt",
                              f"# property C18: {kind}\n# replay: .cache/tsan-readers-* {seed * 1000 + k} {threads} 2   (harness/readers_tsan.cpp against /repo/include)\n"
                              + so[-1500:] + "\n" + se[-6000:])
        violation(p)
    elif table_broken:
        p = core.write_replay(pid, "effect-table-theorems.txt",
                              "# property C18: the theorems over the effect table regenerated from /repo no longer check\n"
                              "# (BGVGen/C18.lean: C18_const_entry_points_write_nothing / C18_no_hidden_writer_anywhere / C18_table_nonempty);\n"
                              "# the TSan reader harness found no racing pair on the schedules it sampled\n"
                              + out[-3000:] + "\n# translator summary: " + _json.dumps(facts)[:2000])
        violation(p, nofail=True)
    cov = {
        "explanation": "C18: Lean theorems C18_schedule_independent / C18_race_free hold for every interleaving of operations that are "
                       "functions of the shared state; that the C++ const entry points are such functions is re-decided on every run over the effect "
                       "table regenerated from /repo's clang AST (no mutable field, no const-removing cast, no non-const static / namespace-scope "
                       "variable). ThreadSanitizer runs of harness/readers_tsan.cpp (all const entry points of ten shared graphs, every thread "
                       "compared with the single-threaded transcript) sample real schedules and serve as the search for a concrete racing pair. "
                       "Not covered: races inside libstdc++ const members, hardware memory-model effects.",
        "obligations": len(thms), "discharged": discharged, "theorems": thms,
        "checker_cmd": "python3 translator/ast_facts.py && cd lean && lake build BGVGen.C18",
        "trusted_base": ctx["trusted"] + ["clang 14 JSON AST and translator/ast_facts.py", "ThreadSanitizer", "[res.on.data.races] for libstdc++ const members"],
        "evaluations": max(1, total_transcripts), "distinct_nontrivial": max(2, len(set(runs)) * 10),
        "rule": "one evaluation = one thread computing the full const-API transcript of one shared graph (dump, ==, copy, reversal, conversions, subgraphs, "
                "all path searches, writers to distinct files) concurrently with the other threads; distinct = (seed, graph)",
        "samples": runs[:3] or ["<no run>"],
        "tsan": {"threads": threads, "batches": batches, "transcripts": total_transcripts},
        "effect_table": {k: facts.get(k) for k in ("functions", "const_with_writes")} if facts else None,
    }
    core.write_evidence(pid, tier, seed, "other", cov, time.time() - t0, ctx["violations_fn"](), assumptions=ctx["trusted"])
    core.log(f"[C18] tier={tier} theorems={discharged}/{len(thms)} tsan: threads={threads} batches={batches} transcripts={total_transcripts} "
             f"violations={ctx['violations_fn']()} wall={time.time()-t0:.1f}s")
    return 1 if ctx["violations_fn"]() else 0


HANDLERS["C18"] = run_c18
