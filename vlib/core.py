"""core.py — build, run, compare, shrink, evidence.  See /verif/DESIGN.md §2.

Everything a registered check needs is rebuilt from /repo's working tree (harness) and
/verif/lean (model + proofs); build products live under /verif/.cache keyed by content hash.
"""
import fcntl
import hashlib
import json
import os
import re
import shutil
import subprocess
import sys
import time

VERIF = os.path.dirname(os.path.dirname(os.path.abspath(__file__)))
REPO = os.environ.get("VERIF_REPO", "/repo")
LEAN = os.path.join(VERIF, "lean")
HARNESS = os.path.join(VERIF, "harness")
CACHE = os.path.join(VERIF, ".cache")
WORK = os.path.join(VERIF, ".work")
EVID = os.environ.get("VERIF_EVIDENCE_DIR", os.path.join(VERIF, "evidence"))
DRIVER = os.path.join(LEAN, ".lake", "build", "bin", "bgdriver")
NCPU = os.cpu_count() or 4

SAN_FLAGS = ["-std=c++17", "-O0", "-g1", "-fsanitize=address,undefined",
             "-fno-sanitize-recover=all", "-fno-omit-frame-pointer"]


def log(*a):
    print(*a, file=sys.stderr, flush=True)


def sh(cmd, cwd=None, timeout=3600, env=None, input=None):
    e = dict(os.environ)
    if env:
        e.update(env)
    p = subprocess.run(cmd, cwd=cwd, stdout=subprocess.PIPE, stderr=subprocess.STDOUT,
                       timeout=timeout, env=e, input=input)
    return p.returncode, p.stdout.decode("utf-8", "replace")


# ------------------------------------------------------------------ hashing
def tree_hash(paths, extra=""):
    h = hashlib.sha256()
    for root in paths:
        if os.path.isfile(root):
            files = [root]
        else:
            files = []
            for d, _, fs in os.walk(root):
                for f in fs:
                    files.append(os.path.join(d, f))
        for f in sorted(files):
            h.update(f.encode())
            with open(f, "rb") as fh:
                h.update(fh.read())
    h.update(extra.encode())
    return h.hexdigest()[:20]


def repo_include():
    return os.path.join(REPO, "include")


# ------------------------------------------------------------------ builds
class BuildError(Exception):
    def __init__(self, what, output):
        super().__init__(what)
        self.what = what
        self.output = output


_lean_built = False


class lean_lock:
    """Serialises every lake invocation of concurrently running checks (lake build of one check
    must not replace .olean files another check's `#print axioms` audit is reading)."""
    _depth = 0
    _fh = None

    def __enter__(self):
        cls = lean_lock
        if cls._depth == 0:
            os.makedirs(CACHE, exist_ok=True)
            cls._fh = open(os.path.join(CACHE, "lean.lock"), "w")
            fcntl.flock(cls._fh, fcntl.LOCK_EX)
        cls._depth += 1
        return self

    def __exit__(self, *a):
        cls = lean_lock
        cls._depth -= 1
        if cls._depth == 0:
            fcntl.flock(cls._fh, fcntl.LOCK_UN)
            cls._fh.close()
            cls._fh = None
        return False


def build_lean():
    """lake build of the model, the proofs and the driver. Raises BuildError."""
    global _lean_built
    if _lean_built and os.path.exists(DRIVER):
        return
    with lean_lock():
        # the driver depends on the model modules only (lean/Driver.lean imports BGV.Model.*), so it is
        # built first: a proof that no longer checks does not take the correspondence down with it
        rc0, out0 = sh(["lake", "build", "bgdriver"], cwd=LEAN, timeout=3000)
        rc, out = sh(["lake", "build", "BGV"], cwd=LEAN, timeout=3000)
    if rc0 != 0:
        raise BuildError("lake build bgdriver", out0)
    if rc != 0:
        raise BuildError("lake build BGV", out)
    _lean_built = True


def _prune_cache(prefix=None, keep=16, window_s=20 * 60):
    """Bounds the harness cache (disk is limited): the newest `keep` binaries stay; an older one is removed
    unless it was used within the last twenty minutes (every cache hit touches the file, and no single check
    runs that long) — a concurrent check against another tree may still be executing it.  Stale lock and
    temporary files go with their binaries."""
    if not os.path.isdir(CACHE):
        return
    now = time.time()
    names = os.listdir(CACHE)
    items = []
    for f in names:
        p = os.path.join(CACHE, f)
        if "." in f or f == "lean.lock":
            continue
        try:
            items.append((os.path.getmtime(p), p))
        except OSError:
            pass
    items.sort(reverse=True)
    for mt, p in items[keep:]:
        if now - mt < window_s:
            continue
        try:
            if os.path.isdir(p):
                shutil.rmtree(p)
            else:
                os.remove(p)
        except OSError:
            pass
    for f in names:
        if f == "lean.lock" or "." not in f:
            continue
        p = os.path.join(CACHE, f)
        base = os.path.join(CACHE, f.split(".")[0])
        try:
            if not os.path.exists(base) and now - os.path.getmtime(p) > window_s:
                os.remove(p)
        except OSError:
            pass


def build_harness(name="bgh", src="bgh.cpp", flags=None, compiler="g++", defines=()):
    """Compile a harness against /repo/include (content-hash cached). Returns binary path.
    The protocol harness is first built with the edge-list constructors of the weighted classes
    (-DBGH_WEIGHTED_CTOR); if /repo's headers do not support them it is built without, and the
    `ctor … dw|uw` operations then answer bad-op (a C09 / C20 finding, not a build failure)."""
    if src == "bgh.cpp" and "-DBGH_WEIGHTED_CTOR" not in defines and "-DBGH_NO_WEIGHTED_CTOR" not in defines:
        try:
            return build_harness(name, src, flags, compiler, tuple(defines) + ("-DBGH_WEIGHTED_CTOR",))
        except BuildError:
            return build_harness(name, src, flags, compiler, tuple(defines) + ("-DBGH_NO_WEIGHTED_CTOR",))
    flags = list(flags if flags is not None else SAN_FLAGS)
    key = tree_hash([repo_include(), HARNESS], " ".join([compiler] + flags + list(defines)))
    os.makedirs(CACHE, exist_ok=True)
    out = os.path.join(CACHE, f"{name}-{key}")
    if os.path.exists(out):
        os.utime(out, None)
        return out
    import fcntl
    with open(out + ".lock", "w") as lk:
        fcntl.flock(lk, fcntl.LOCK_EX)      # concurrent checks build the same binary once
        try:
            if os.path.exists(out):
                return out
            tmp = f"{out}.tmp{os.getpid()}"
            cmd = [compiler] + flags + list(defines) + ["-I", repo_include(), "-I", HARNESS,
                                                         os.path.join(HARNESS, src), "-o", tmp]
            t0 = time.time()
            rc, o = sh(cmd, timeout=1800)
            if rc != 0:
                raise BuildError(f"harness build ({name})", o)
            os.replace(tmp, out)
            log(f"[build] {name} compiled in {time.time()-t0:.1f}s")
            _prune_cache(name + "-")
            return out
        finally:
            fcntl.flock(lk, fcntl.LOCK_UN)


# ------------------------------------------------------------------ audit of the proofs
FORBIDDEN = re.compile(r"\b(sorry|admit|native_decide|bv_decide|implemented_by|unsafe)\b|^\s*axiom\s|maxHeartbeats\s+0")
ALLOWED_AXIOMS = {"propext", "Classical.choice", "Quot.sound"}


def strip_comments(text):
    # remove /- ... -/ (nested) and -- comments
    out = []
    i, depth, n = 0, 0, len(text)
    while i < n:
        if text.startswith("/-", i):
            depth += 1
            i += 2
        elif depth and text.startswith("-/", i):
            depth -= 1
            i += 2
        elif depth:
            if text[i] == "\n":
                out.append("\n")
            i += 1
        elif text.startswith("--", i):
            while i < n and text[i] != "\n":
                i += 1
        else:
            out.append(text[i])
            i += 1
    return "".join(out)


def grep_forbidden():
    hits = []
    for d, _, fs in os.walk(os.path.join(LEAN, "BGV")):
        for f in fs:
            if f.endswith(".lean"):
                p = os.path.join(d, f)
                for ln, line in enumerate(strip_comments(open(p).read()).split("\n"), 1):
                    if FORBIDDEN.search(line):
                        hits.append(f"{p}:{ln}: {line.strip()}")
    return hits


_audit_cache = None


def audit_axioms():
    """Runs `#print axioms` on every theorem named in lean/Audit.lean.
    Returns dict theorem -> sorted list of axioms (or None when the theorem is missing)."""
    global _audit_cache
    if _audit_cache is not None:
        return _audit_cache
    with lean_lock():
        rc, out = sh(["lake", "env", "lean", "Audit.lean"], cwd=LEAN, timeout=1200)
    res = {}
    # "'BGV.foo' depends on axioms: [propext, Quot.sound]"  /  "'BGV.foo' does not depend on any axioms"
    for m in re.finditer(r"'([^']+)' depends on axioms: \[([^\]]*)\]", out.replace("\n ", " ")):
        res[m.group(1)] = sorted(x.strip() for x in m.group(2).replace("\n", " ").split(",") if x.strip())
    for m in re.finditer(r"'([^']+)' does not depend on any axioms", out):
        res[m.group(1)] = []
    _audit_cache = (rc, out, res)
    return _audit_cache


def audit_theorems():
    """Map property id -> list of theorem names, parsed from Audit.lean (`-- Cxx` section markers)."""
    props = {}
    cur = None
    for line in open(os.path.join(LEAN, "Audit.lean")):
        m = re.match(r"--\s*(C\d\d)\b", line)
        if m:
            cur = m.group(1)
            props.setdefault(cur, [])
            continue
        m = re.match(r"#print axioms\s+(\S+)", line)
        if m and cur:
            props[cur].append(m.group(1))
    return props



def sweep_work(max_age_s=3600):
    """removes scratch files (chunk inputs / echoes, harness scratch files) that an interrupted or timed-out
    run left behind more than an hour ago"""
    now = time.time()
    for d in (WORK, os.path.join(WORK, "tmp")):
        if not os.path.isdir(d):
            continue
        for f in os.listdir(d):
            p = os.path.join(d, f)
            if d == WORK and not (f.endswith(".ops") or f.endswith(".echo")):
                continue
            try:
                if os.path.isfile(p) and now - os.path.getmtime(p) > max_age_s:
                    os.remove(p)
            except OSError:
                pass


# ------------------------------------------------------------------ running both sides
def run_pair(ops_text, harness_bin, tag="run", timeout=1200, harness_env=None, partial_on_timeout=False):
    """Runs the implementation harness, then the model driver on the echoed (oracle-augmented)
    ops.  Returns dict(impl=str, model=str, impl_rc=int, model_rc=int, impl_err=str)."""
    os.makedirs(WORK, exist_ok=True)
    base = os.path.join(WORK, f"{tag}-{os.getpid()}")
    ops_p, echo_p = base + ".ops", base + ".echo"
    with open(ops_p, "w") as f:
        f.write(ops_text)
    env = dict(os.environ)
    # a mutated loader that asks for gigabytes is reported by ASan at once instead of thrashing
    env["ASAN_OPTIONS"] = "detect_leaks=0:abort_on_error=0:exitcode=77:max_allocation_size_mb=1024:hard_rss_limit_mb=6000"
    env["UBSAN_OPTIONS"] = "print_stacktrace=1:halt_on_error=1:exitcode=78"
    env["BGH_TMP"] = os.path.join(WORK, "tmp")
    os.makedirs(env["BGH_TMP"], exist_ok=True)
    if harness_env:
        env.update(harness_env)
    class _P:   # result of the harness run (or what a timed-out run left behind)
        pass
    try:
        with open(ops_p, "rb") as fin:
            p = subprocess.run([harness_bin, echo_p], stdin=fin, stdout=subprocess.PIPE,
                               stderr=subprocess.PIPE, timeout=timeout, env=env)
    except subprocess.TimeoutExpired as e:
        if not partial_on_timeout:
            for f in (ops_p, echo_p):
                try:
                    os.remove(f)
                except OSError:
                    pass
            raise
        # a chunk that does not finish: the harness flushes stdout and the echo at every `reset`, so the
        # histories completed so far are intact and the one it hangs in is the next (engine re-runs it alone)
        p = _P()
        p.stdout, p.stderr, p.returncode = (e.stdout or b""), b"timeout", -9
    impl = p.stdout.decode("utf-8", "replace")
    impl_err = p.stderr.decode("utf-8", "replace")
    # the model replays what the implementation echoed; if the harness died, fall back to the
    # original ops so that the model transcript is still complete
    if p.returncode == 0 and os.path.exists(echo_p):
        model_in = open(echo_p, "rb").read()
    else:
        # the harness died: replay what it echoed (with its oracle annotations) and then the rest of
        # the original ops, so that the model transcript is complete and the first difference is the
        # operation during which the implementation died
        echoed = open(echo_p, "rb").read().split(b"\n") if os.path.exists(echo_p) else []
        if echoed and echoed[-1] == b"":
            echoed.pop()
        orig = ops_text.encode().split(b"\n")
        model_in = b"\n".join(echoed + orig[len(echoed):])
    q = subprocess.run([DRIVER], input=model_in, stdout=subprocess.PIPE, stderr=subprocess.PIPE,
                       timeout=timeout)
    model = q.stdout.decode("utf-8", "replace")
    for f in (ops_p, echo_p):
        try:
            os.remove(f)
        except OSError:
            pass
    return dict(impl=impl, model=model, impl_rc=p.returncode, model_rc=q.returncode,
                impl_err=impl_err, model_err=q.stderr.decode("utf-8", "replace"))


def split_histories(transcript):
    """Split a transcript at 'R reset' lines -> list of list-of-lines."""
    hs, cur = [], []
    for line in transcript.split("\n"):
        if line == "R reset":
            hs.append(cur)
            cur = []
        else:
            cur.append(line)
    if any(l for l in cur):
        hs.append(cur)
    return hs


def split_steps(lines):
    """Split one history's transcript into steps: [(op_line, [output lines])]."""
    steps = []
    for l in lines:
        if l.startswith("> "):
            steps.append((l[2:], []))
        elif steps:
            steps[-1][1].append(l)
    return steps


# ------------------------------------------------------------------ evidence
def write_evidence(pid, tier, seed, level, coverage, wall, violations, assumptions=None):
    os.makedirs(EVID, exist_ok=True)
    ev = {
        "property_id": pid, "tier": tier, "seed": int(seed), "level": level,
        "coverage": coverage, "assumptions": assumptions or [], "wall_s": round(wall, 2),
        "violations": int(violations),
    }
    tmp = os.path.join(EVID, f".{pid}.json.tmp")
    with open(tmp, "w") as f:
        json.dump(ev, f, indent=1, sort_keys=True)
    os.replace(tmp, os.path.join(EVID, f"{pid}.json"))


def write_replay(pid, name, content):
    d = os.path.join(WORK, "replays")
    os.makedirs(d, exist_ok=True)
    p = os.path.join(d, f"{pid}-{name}")
    with open(p, "w") as f:
        f.write(content)
    return p
